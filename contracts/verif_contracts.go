//go:build verif

// Contracts for package capnp, read by /verif/engine (govc).  Comment-only file.
package capnp

//@ spec
//@ func mMaxSeg() M { return M(maxSegmentSize) }
//@ end

//@ func address.addSize -> r, ok
//@   props C01 C03
//@   ensures ok == (M(a)+M(sz) <= mMaxSeg())
//@   ensures implies(ok, M(r) == M(a)+M(sz))

//@ func address.element -> r, ok
//@   props C01 C03
//@   ensures ok == (0 <= M(a)+M(i)*M(sz) && M(a)+M(i)*M(sz) <= mMaxSeg())
//@   ensures implies(ok, M(r) == M(a)+M(i)*M(sz))

//@ func Size.times -> r, ok
//@   props C01 C03
//@   ensures ok == (0 <= M(sz)*M(n) && M(sz)*M(n) <= mMaxSeg())
//@   ensures implies(ok, M(r) == M(sz)*M(n))

//@ func Size.padToWord -> r
//@   props C04 C05
//@   requires M(sz) <= mMaxSeg()
//@   ensures M(r) >= M(sz) && M(r) < M(sz)+8 && r%8 == 0
