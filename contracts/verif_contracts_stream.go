//go:build verif

// Contracts for stream framing (message.go): header arithmetic, Decoder limits, Unmarshal.
// Framing spec (encoding.html, "Serialization Over a Stream"): 4 bytes segment count minus one,
// 4 bytes per segment size in words, padded to a word boundary.
package capnp

//@ import "io"

//@ spec
//@ // header bytes for a message whose last segment has id n
//@ func hdrBytes(n M) M { return ((n+2)*4 + 7) &^ 7 }
//@ // a complete header (the 32-bit index arithmetic of segmentSize limits headers to < 4 GiB)
//@ func hdrOK(h streamHeader) bool {
//@ 	return len(h.b) >= 8 && M(len(h.b)) >= hdrBytes(M(LE32(h.b, 0))) && LE32(h.b, 0) < 1<<30-1
//@ }
//@ end

//@ extern io.ReadFull -> n, err
//@   -- assumed: the user's reader fills the buffer and does not touch the decoder's own state
//@   modifies e:uint8
//@   ensures 0 <= n && n <= len(buf)
//@   ensures implies(err == nil, n == len(buf))
//@   ensures bytesUnchangedExcept(buf, 0, len(buf))

//@ func streamHeaderSize -> r
//@   props C14 C04 C05
//@   ensures M(r) == hdrBytes(M(maxSeg))
//@   ensures r%8 == 0 && r >= 8

//@ func streamHeader.maxSegment -> r
//@   props C14
//@   requires len(h.b) >= 4
//@   ensures uint32(r) == LE32(h.b, 0)

//@ func streamHeader.segmentSize -> sz, err
//@   props C14
//@   -- (the index 4+i*4 is computed in 32 bits; headers of 4 GiB and more are out of its range)
//@   requires i < 1<<30-1 && 4*M(i)+8 <= M(len(h.b))
//@   modifies nothing
//@   ensures (err == nil) == (LE32(h.b, 4+4*int(i)) < 1<<29)
//@   ensures implies(err == nil, M(sz) == 8*M(LE32(h.b, 4+4*int(i))))

//@ func streamHeader.totalSize -> sum, err
//@   props C14
//@   requires hdrOK(h)
//@   modifies nothing
//@   -- no wrap-around: at most 2^30 segments of at most 2^32-8 bytes
//@   ensures implies(err == nil, M(sum) <= (M(LE32(h.b, 0))+1)*mMaxSeg())
//@   loop 0 "i <= uint64(h.maxSegment())"
//@     invariant i <= uint64(LE32(h.b, 0))+1 && M(sum) <= M(i)*mMaxSeg()

//@ func resizeSlice -> r
//@   props C14
//@   requires 0 <= size
//@   ensures len(r) == size
//@   ensures implies(cap(b) >= size, sameArr(r, b))
//@   ensures implies(cap(b) < size, fresharr(r) || size == 0)

//@ func hasCapacity -> r
//@   props C04 C05 C14
//@   -- never claims room that is not there; exact below 4 GiB of spare capacity
//@   ensures implies(r, M(sz) <= M(cap(b))-M(len(b)))
//@   ensures implies(M(cap(b))-M(len(b)) < 1<<32, r == (M(sz) <= M(cap(b))-M(len(b))))

//@ func Decoder.Decode -> msg, err
//@   props C14
//@   requires d != nil && d.r != nil
//@   -- never more than the limit of segments (DESIGN 5.14: taken from the statement)
//@   assert before "var hdr streamHeader" [C14] segcount: M(maxSeg)+1 <= maxStreamSegments
//@   -- nothing is allocated or read beyond the configured maximum message size
//@   assert before "d.hdrbuf = resizeSlice(d.hdrbuf, int(hdrSize))" [C14] hdrcap: hdrSize <= maxSize && M(hdrSize) == hdrBytes(M(maxSeg))
//@   assert before "buf := make([]byte, int(total))" [C14] cap: M(len(hdr.b))+M(total) <= M(maxSize) && M(total) <= M(maxInt)
//@   assert before "d.buf = resizeSlice(d.buf, int(total))" [C14] capreuse: M(len(hdr.b))+M(total) <= M(maxSize) && M(total) <= M(maxInt)
//@   -- the header handed to totalSize/demuxArena is complete
//@   assert before "total, err := hdr.totalSize()" [C14] hdrcomplete: hdrOK(hdr)
//@   -- ... and is exactly the header of this frame: a longer buffer (left over from an earlier frame
//@   -- with more segments) would swallow the beginning of the segment data
//@   assert before "total, err := hdr.totalSize()" [C14] hdrexact: M(len(hdr.b)) == hdrBytes(M(maxSeg))

//@ func Unmarshal -> msg, err
//@   props C14 C01
//@   requires len(data) <= 1<<32   -- larger inputs would need 32-bit header index arithmetic to be revisited
//@   ensures implies(err == nil, msg != nil && msg.Arena != nil)
//@   assert before "hdr := streamHeader{data[:hdrSize]}" [C14] hdrfits: M(hdrSize) == hdrBytes(M(maxSeg)) && M(hdrSize) <= M(len(data))

// demuxArena: what each segment of the demuxed arena is, stated pointwise (no prefix sums): there
// are maxSegment+1 segments, segment k is exactly as long as the header's k-th size field says
// (length and capacity), segment 0 begins where the data begins and each later segment begins where
// the one before it ends.  PARTIAL: the slice bounds of `data[:sz:sz]` are not generated - they follow
// from the caller-side condition len(data) >= totalSize(hdr), a sum over the header that this
// contract language cannot state without a recursive spec function.
//@ func demuxArena -> arena, err
//@   props C14 C01
//@   partial post
//@   -- (a header announcing 2^32 segments would wrap maxSeg+1 to 0; such a header is 16 GiB long and both
//@   -- callers have rejected it before: the count is stated for headers below 2^30 segments)
//@   requires len(hdr.b) >= 8
//@   modifies nothing
//@   ensures implies(err == nil, arena != nil)
//@   ensures count: implies(err == nil && LE32(hdr.b, 0) < 1<<30-1, M(len(*(arena.(*multiSegmentArena)))) == M(LE32(hdr.b, 0))+1)
//@   ensures exact: implies(err == nil, forall(0, len(*(arena.(*multiSegmentArena))), func(k int) bool {
//@     return M(len((*(arena.(*multiSegmentArena)))[k])) == 8*M(LE32(hdr.b, 4+4*k)) && cap((*(arena.(*multiSegmentArena)))[k]) == len((*(arena.(*multiSegmentArena)))[k]) }))
//@   ensures first: implies(err == nil && LE32(hdr.b, 0) < 1<<30-1, sameSlice((*(arena.(*multiSegmentArena)))[0][:0], data[:0]))
//@   ensures consecutive: implies(err == nil, forall(1, len(*(arena.(*multiSegmentArena))), func(k int) bool {
//@     return sameSlice((*(arena.(*multiSegmentArena)))[k][:0], (*(arena.(*multiSegmentArena)))[k-1][len((*(arena.(*multiSegmentArena)))[k-1]):]) }))
//@   old data0 []byte = data
//@   loop 0 "range segs"
//@     invariant implies(LE32(hdr.b, 0) < 1<<30-1, M(len(segs)) == M(LE32(hdr.b, 0))+1)
//@     invariant forall(0, i, func(k int) bool { return M(len(segs[k])) == 8*M(LE32(hdr.b, 4+4*k)) && cap(segs[k]) == len(segs[k]) })
//@     invariant implies(i == 0, sameSlice(data[:0], data0[:0]))
//@     invariant implies(i > 0, sameSlice(data[:0], segs[i-1][len(segs[i-1]):]) && sameSlice(segs[0][:0], data0[:0]))
//@     invariant forall(1, i, func(k int) bool { return sameSlice(segs[k][:0], segs[k-1][len(segs[k-1]):]) })

// Message.Reset (reused by Decoder.ReuseBuffer): once the segment bookkeeping has been cleared, no
// Segment object of the previous message is registered - neither the embedded first segment nor a map
// entry - so every segment of the next message is loaded from the new arena.  PARTIAL, and a point
// assertion rather than a postcondition: the capability-release loop that follows calls arbitrary
// Shutdown hooks, across which nothing about the message is known without a further assumption.
//@ func Message.Reset
//@   props C14
//@   partial
//@   requires m != nil
//@   assert before "m.Arena = arena" noseg: m.firstSeg.msg == nil && forall(0, 1<<32, func(i int) bool { return m.segs == nil || m.segs[SegmentID(i)] == nil })
