//go:build verif

// Contracts for the streaming decoder.
package packed

//@ spec
//@ // Reader invariant: the deferred error is never the bare end-of-stream marker (a stream that
//@ // ends after a tag byte is truncated), the partial-word cursor is within the word buffer, and
//@ // the word buffer is not the bufio.Reader's internal buffer
//@ func readerOK(r *Reader) bool {
//@ 	return r != nil && r.rd != nil && r.err != io.EOF && 0 <= r.wordIdx && r.wordIdx <= 8 &&
//@ 		arrID(r.word[:]) != ghost("bufio.bufarr", r.rd)
//@ }
//@ end

//@ func Reader.ReadWord -> err
//@   props C01 C13
//@   requires readerOK(r)
//@   requires len(p) == 0 || arrID(p) != ghost("bufio.bufarr", r.rd)   -- the caller's buffer is not the reader's
//@   old lit0 int = r.literal
//@   old zer0 int = r.zeroes
//@   old err0 error = r.err
//@   old rd0 *bufio.Reader = r.rd
//@   ensures readerOK(r) && r.rd == rd0
//@   ensures implies(len(p) >= 8, r.wordIdx == 8)
//@   -- truncation inside a literal run is not a clean end of stream
//@   ensures [C13] literalEOF: implies(len(p) >= 8 && err0 == nil && zer0 <= 0 && lit0 > 0, err != io.EOF)
//@   -- a deferred error is reported by the next call and cleared
//@   ensures implies(len(p) >= 8 && err0 != nil, err == err0 && r.err == nil)
//@   -- zero run: a zero word, one less to go
//@   ensures [C13] zeroword: implies(len(p) >= 8 && err0 == nil && zer0 > 0, err == nil && r.zeroes == zer0-1 && forall(0, 8, func(j int) bool { return p[j] == 0 }))
//@   loop 0 "range p"
//@     invariant len(p) == 8 && 0 <= i && i <= 8
//@     invariant forall(0, i, func(j int) bool { return p[j] == 0 })
//@   loop 1 "range p"
//@     invariant len(p) == 8
//@   loop 2 "i < wordSize"
//@     invariant len(p) == 8
//@   -- fast path (whole word buffered): the word equals what the tag and the following bytes denote
//@   assert before "discard(r.rd, i)" [C13] wordfast: i == 1+pc(tag) && forall(0, 8, func(k int) bool { return p[k] == pick(bit(tag, k), b[1+rank(tag, k)]) })

//@ func Reader.Read -> n, err
//@   props C01 C13
//@   requires readerOK(r)
//@   requires len(p) == 0 || arrID(p) != ghost("bufio.bufarr", r.rd)
//@   old rd0 *bufio.Reader = r.rd
//@   ensures readerOK(r) && r.rd == rd0
//@   ensures 0 <= n && n <= len(p)
//@   loop 0 "n < len(p)"
//@     invariant readerOK(r) && r.rd == rd0 && 0 <= n && n <= len(p)
