//go:build verif

// Contracts for package packed (https://capnproto.org/encoding.html#packing).  Comment-only file.
// The spec functions are written from the packing specification: a tag byte has bit k set iff
// byte k of the word is non-zero; the non-zero bytes follow in order; tag 0x00 is followed by a
// count (0..255) of additional all-zero words; tag 0xff by a count (0..255) of verbatim words.
package packed

//@ import "io"
//@ import "bufio"

//@ spec
//@ func bit(t byte, k int) bool { return (t>>uint(k))&1 == 1 }
//@ // number of set bits of t below position k (k in 0..8)
//@ func rank(t byte, k int) int {
//@ 	m := t & byte((1<<uint(k))-1)
//@ 	return int(m&1) + int(m>>1&1) + int(m>>2&1) + int(m>>3&1) + int(m>>4&1) + int(m>>5&1) + int(m>>6&1) + int(m>>7&1)
//@ }
//@ func pc(t byte) int { return rank(t, 8) }
//@ func pick(c bool, v byte) byte {
//@ 	if c {
//@ 		return v
//@ 	}
//@ 	return 0
//@ }
//@ end

//@ axiom io_sentinels: io.EOF != nil && io.ErrUnexpectedEOF != nil && io.EOF != io.ErrUnexpectedEOF

// ---------------------------------------------------------------- assumed contracts on dependencies

//@ extern bufio.Reader.Buffered -> n
//@   modifies nothing
//@   ensures n >= 0 && n == ghost("bufio.buffered", b)

//@ extern bufio.Reader.Peek -> out, err
//@   modifies g:bufio.buffered
//@   old avail int = ghost("bufio.buffered", b)
//@   ensures implies(err == nil, len(out) == n)
//@   ensures implies(avail >= n && n >= 0, err == nil)
//@   -- the returned bytes live in the reader's own buffer
//@   ensures len(out) == 0 || arrID(out) == ghost("bufio.bufarr", b)
//@   ensures ghost("bufio.buffered", b) >= avail

//@ extern bufio.Reader.ReadByte -> c, err
//@   modifies g:bufio.buffered

//@ extern io.ReadFull -> n, err
//@   -- in this package the reader is always the *bufio.Reader: only the destination buffer and the
//@   -- bufio.Reader's own state change
//@   modifies e:uint8 g:bufio.buffered
//@   ensures 0 <= n && n <= len(buf)
//@   ensures implies(err == nil, n == len(buf))
//@   ensures implies(err == io.EOF, n == 0)
//@   ensures implies(err == io.ErrUnexpectedEOF, 0 < n && n < len(buf))

// ---------------------------------------------------------------- helpers

//@ func min -> r
//@   props C01 C13
//@   ensures r <= a && r <= b && (r == a || r == b)

//@ func numZeroWords -> r
//@   props C01 C13
//@   ensures 0 <= r && 8*M(r) <= M(len(b))
//@   ensures forall(0, 8*r, func(j int) bool { return b[j] == 0 })
//@   ensures implies(8*r+8 <= len(b), !forall(8*r, 8*r+8, func(j int) bool { return b[j] == 0 }))
//@   loop 0 "range b"
//@     invariant 0 <= i && i <= len(b)
//@     invariant forall(0, i, func(j int) bool { return b[j] == 0 })

//@ func allocWords -> r
//@   props C01 C13
//@   requires 0 <= n && n <= 255
//@   ensures len(r) == len(p)+8*n
//@   ensures forall(0, len(p), func(j int) bool { return r[j] == oldbyte(p, j) })
//@   ensures forall(len(p), len(r), func(j int) bool { return r[j] == 0 })
//@   ensures sameArr(r, p) || fresharr(r)
//@   ensures bytesUnchangedExcept(p, len(p), len(p)+8*n)
//@   loop 0 "range pp"
//@     invariant 0 <= i && i <= len(pp)
//@     invariant len(pp) == 8*n && sameArr(pp, p)
//@     invariant forall(len(p), len(p)+i, func(j int) bool { return p[j] == 0 }) -- spec indexing beyond len: same array
//@     invariant bytesUnchangedExcept(p, len(p), len(p)+8*n)
//@   loop 1 "newcap < target"
//@     invariant newcap >= 1024 && newcap <= 2*target
//@     decreases target - newcap
