package main

import (
	"fmt"
	"go/ast"
	"go/parser"
	"go/token"
	"go/types"
	"os"
	"path/filepath"
	"sort"
	"regexp"
	"strconv"
	"strings"

	"golang.org/x/tools/go/packages"
	"golang.org/x/tools/go/ssa"
)

const modulePath = "capnproto.org/go/capnp/v3"

var repoDir = "/repo"
var verifDir = "/verif"

type LPkg struct {
	Path   string
	Name   string
	Rel    string // directory relative to repo root
	P1     *packages.Package
	Files  []*ast.File
	Stub   *ast.File
	StubSrc string
	TPkg   *types.Package
	Info   *types.Info
	SPkg   *ssa.Package
	CF     *ContractFile
	Units  map[string]*FuncUnit // by contract key
	Drift  map[string]string    // contract units dropped because the code drifted away (key -> reason)
	SkipAssert map[string]string // point assertions dropped on their own ("Key#k" -> reason)
	SkipFull   map[string]bool   // drifted units whose pre/postconditions do not apply to the code either
	Extern map[*ssa.Function]*FuncUnit // assumed contracts on functions of other modules
	Lemmas []*LemmaUnit
	posIdx map[*ast.File]map[token.Pos]ast.Node
}

type LocalRef struct {
	Name string
	Pos  token.Pos // declaration position of the variable
	Type types.Type
}

type LoopUnit struct {
	C      *LoopContract
	Stmt   ast.Stmt
	Fn     *ssa.Function // invariant stub
	Params []stubParam
}

type AssertUnit struct {
	C      *AssertContract
	Stmt   ast.Stmt
	Fn     *ssa.Function
	Params []stubParam
	Index  int
}

type stubParam struct {
	Name  string
	Kind  string // "recv","param","result","old","local"
	Index int
	Local LocalRef
}

type FuncUnit struct {
	Pkg      *LPkg
	C        *FuncContract
	Key      string
	Obj1     *types.Func // phase-1 object
	Decl     *ast.FuncDecl
	Fn       *ssa.Function
	Pre      *ssa.Function
	Old      *ssa.Function
	Post     *ssa.Function
	ResNames []string
	Loops    map[int]*LoopUnit // by ordinal
	AstLoops []ast.Stmt
	Asserts  []*AssertUnit
	Steps    []*ssa.Function
	Dropped  []string
	// LoopDrift: loops whose header text no longer matches the contract; their annotations are
	// attached by ordinal all the same, and the unit's failures count only if those invariants
	// still verify (else the unit is undecided).  AssertDrift: assertions whose anchor statement
	// is gone or ambiguous; they are left out and reported undecided one by one.
	LoopDrift   []string
	AssertDrift []string
	// Drifted: the contract's annotations no longer apply to the body; the unit is not verified in
	// this run (reported undecided) but its pre/postconditions still serve its callers.
	Drifted  bool
	id       string
	IfaceT   *types.Named // for iface contracts
	IfaceM   string
}

type LemmaUnit struct {
	L  *Lemma
	Fn *ssa.Function
	id string
}

type Loaded struct {
	Fset  *token.FileSet
	Prog  *ssa.Program
	Pkgs  map[string]*LPkg
	Order []*LPkg
	ByFn  map[*ssa.Function]*FuncUnit
	Iface map[string]*FuncUnit // "pkgpath.Type.Method" → assumed contract
	Errs  []string
}

func relOf(path string) string {
	if path == modulePath {
		return "."
	}
	return strings.TrimPrefix(path, modulePath+"/")
}

// Load type-checks the given in-module packages (import paths or ./relative patterns)
// from the current working tree with -tags verif, desugars the //@ contracts into an
// in-memory stub file per package, re-checks, and builds SSA.
func Load(patterns []string) (*Loaded, error) {
	fset := token.NewFileSet()
	cfg := &packages.Config{
		Mode:       packages.NeedName | packages.NeedFiles | packages.NeedCompiledGoFiles | packages.NeedImports | packages.NeedDeps | packages.NeedTypes | packages.NeedSyntax | packages.NeedTypesInfo | packages.NeedTypesSizes | packages.NeedModule,
		Dir:        repoDir,
		Fset:       fset,
		BuildFlags: []string{"-tags=verif"},
		Env:        append(os.Environ(), "GOFLAGS=-mod=mod", "GOPROXY=off", "GOSUMDB=off", "GOTOOLCHAIN=local"),
	}
	roots, err := packages.Load(cfg, patterns...)
	if err != nil {
		return nil, err
	}
	ld := &Loaded{Fset: fset, Pkgs: map[string]*LPkg{}, ByFn: map[*ssa.Function]*FuncUnit{}, Iface: map[string]*FuncUnit{}}
	var all []*packages.Package
	var loadErrs []string
	packages.Visit(roots, nil, func(p *packages.Package) { // post-order: deps first
		all = append(all, p)
		for _, e := range p.Errors {
			loadErrs = append(loadErrs, e.Error())
		}
	})
	if len(loadErrs) > 0 {
		return nil, fmt.Errorf("load errors: %s", strings.Join(loadErrs, "; "))
	}
	newTypes := map[string]*types.Package{}
	imp := importerFunc(func(path string) (*types.Package, error) {
		if p, ok := newTypes[path]; ok {
			return p, nil
		}
		return nil, fmt.Errorf("package %q not loaded", path)
	})
	for _, p := range all {
		inMod := p.PkgPath == modulePath || strings.HasPrefix(p.PkgPath, modulePath+"/")
		if !inMod {
			newTypes[p.PkgPath] = p.Types
			continue
		}
		lp := &LPkg{Path: p.PkgPath, Name: p.Name, Rel: relOf(p.PkgPath), P1: p, Files: p.Syntax, Units: map[string]*FuncUnit{}}
		ld.Pkgs[p.PkgPath] = lp
		ld.Order = append(ld.Order, lp)
		// contracts: repo file first, else mirror
		// (verif_contracts.go plus any verif_contracts_*.go next to it)
		cdir := filepath.Join(repoDir, lp.Rel)
		src := "repo"
		if os.Getenv("GOVC_CONTRACTS") == "mirror" {
			cdir = ""
		}
		if _, err := os.Stat(filepath.Join(cdir, "verif_contracts.go")); err != nil || cdir == "" {
			cdir = filepath.Join(verifDir, "contracts", lp.Rel)
			src = "mirror"
		}
		var cfiles []string
		if _, err := os.Stat(filepath.Join(cdir, "verif_contracts.go")); err == nil {
			cfiles = append(cfiles, filepath.Join(cdir, "verif_contracts.go"))
			more, _ := filepath.Glob(filepath.Join(cdir, "verif_contracts_*.go"))
			sort.Strings(more)
			cfiles = append(cfiles, more...)
		}
		for _, cpath := range cfiles {
			cf, err := ParseContractFile(cpath, src)
			if err != nil {
				return nil, err
			}
			if lp.CF == nil {
				lp.CF = cf
			} else {
				lp.CF.Imports = append(lp.CF.Imports, cf.Imports...)
				lp.CF.Spec += "\n" + cf.Spec
				lp.CF.Funcs = append(lp.CF.Funcs, cf.Funcs...)
				lp.CF.Lemmas = append(lp.CF.Lemmas, cf.Lemmas...)
				for k := range cf.Options {
					if lp.CF.Options == nil {
						lp.CF.Options = map[string]bool{}
					}
					lp.CF.Options[k] = true
				}
			}
		}
		skip := map[string]string{}
		lp.Drift = skip
		var tp *types.Package
		var info *types.Info
		for attempt := 0; ; attempt++ {
			stubSrc, err := ld.genStub(lp, skip)
			if err != nil {
				return nil, err
			}
			lp.StubSrc = stubSrc
			lp.Stub = nil
			files := append([]*ast.File{}, lp.Files...)
			stubName := filepath.Join(repoDir, lp.Rel, fmt.Sprintf("verif_stub_generated_%d.go", attempt))
			if stubSrc != "" {
				sf, err := parser.ParseFile(fset, stubName, stubSrc, parser.ParseComments)
				if err != nil {
					dumpStub(lp, stubSrc)
					return nil, fmt.Errorf("contract stub for %s does not parse: %v", lp.Path, err)
				}
				lp.Stub = sf
				files = append(files, sf)
			}
			info = &types.Info{
				Types:        map[ast.Expr]types.TypeAndValue{},
				Defs:         map[*ast.Ident]types.Object{},
				Uses:         map[*ast.Ident]types.Object{},
				Implicits:    map[ast.Node]types.Object{},
				Selections:   map[*ast.SelectorExpr]*types.Selection{},
				Scopes:       map[ast.Node]*types.Scope{},
				Instances:    map[*ast.Ident]types.Instance{},
				FileVersions: map[*ast.File]string{},
			}
			var terrs []types.Error
			gov := ""
			if p.Module != nil && p.Module.GoVersion != "" {
				gov = "go" + p.Module.GoVersion
			}
			tc := &types.Config{
				Importer:  imp,
				GoVersion: gov,
				Sizes:     types.SizesFor("gc", "amd64"),
				Error: func(err error) {
					s := err.Error()
					if strings.Contains(s, "imported and not used") || strings.Contains(s, "declared and not used") {
						return
					}
					if te, ok := err.(types.Error); ok {
						terrs = append(terrs, te)
					} else {
						terrs = append(terrs, types.Error{Msg: s})
					}
				},
			}
			tp, _ = tc.Check(p.PkgPath, fset, files, info)
			if len(terrs) == 0 {
				break
			}
			// attribute each error to the contract unit whose stub functions contain it
			progressed := false
			var fatal []string
			lines := strings.Split(stubSrc, "\n")
			for _, te := range terrs {
				pos := fset.Position(te.Pos)
				key := ""
				if pos.Filename == stubName {
					for l := pos.Line - 1; l >= 0 && l < len(lines); l-- {
						if strings.HasPrefix(lines[l], "// @unit ") {
							key = strings.TrimSpace(strings.TrimPrefix(lines[l], "// @unit "))
							break
						}
					}
				}
				if key == "" {
					fatal = append(fatal, te.Error())
					continue
				}
				// an error inside the stub of one point assertion drops that assertion only
				if os.Getenv("GOVC_DEBUG_DRIFT") != "" {
					fmt.Fprintf(os.Stderr, "type error %s at stub line %d: %q (assert stub %d)\n", te.Msg, pos.Line, lines[pos.Line-1], enclosingAssertStub(lines, pos.Line-1))
				}
				if ak := enclosingAssertStub(lines, pos.Line-1); ak >= 0 {
					if lp.SkipAssert == nil {
						lp.SkipAssert = map[string]string{}
					}
					sk := fmt.Sprintf("%s#%d", key, ak)
					if _, dup := lp.SkipAssert[sk]; !dup {
						lp.SkipAssert[sk] = "does not type-check against the current code: " + te.Msg
						progressed = true
					}
					continue
				}
				if _, dup := skip[key]; !dup {
					skip[key] = "contract does not type-check against the current code: " + te.Msg
					progressed = true
				} else if !lp.SkipFull[key] {
					if lp.SkipFull == nil {
						lp.SkipFull = map[string]bool{}
					}
					lp.SkipFull[key] = true
					progressed = true
				}
			}
			if len(fatal) > 0 || !progressed || attempt > 20 {
				dumpStub(lp, stubSrc)
				var all []string
				for _, te := range terrs {
					all = append(all, te.Error())
				}
				return nil, fmt.Errorf("type errors in %s (stub dumped to %s): %s", lp.Path, stubDumpPath(lp), strings.Join(all, "; "))
			}
		}
		lp.TPkg = tp
		lp.Info = info
		newTypes[p.PkgPath] = tp
	}
	// SSA
	prog := ssa.NewProgram(fset, ssa.GlobalDebug)
	ld.Prog = prog
	created := map[string]bool{}
	for _, p := range all {
		if lp, ok := ld.Pkgs[p.PkgPath]; ok {
			files := append([]*ast.File{}, lp.Files...)
			if lp.Stub != nil {
				files = append(files, lp.Stub)
			}
			lp.SPkg = prog.CreatePackage(lp.TPkg, files, lp.Info, true)
		} else if !created[p.PkgPath] {
			prog.CreatePackage(p.Types, nil, nil, true)
		}
		created[p.PkgPath] = true
	}
	for _, lp := range ld.Order {
		lp.SPkg.Build()
	}
	for _, lp := range ld.Order {
		if err := ld.bind(lp); err != nil {
			return nil, err
		}
	}
	return ld, nil
}

type importerFunc func(path string) (*types.Package, error)

func (f importerFunc) Import(path string) (*types.Package, error) { return f(path) }

func stubDumpPath(lp *LPkg) string {
	return filepath.Join(os.TempDir(), "govc-stub-"+strings.ReplaceAll(lp.Rel, "/", "_")+".go")
}
func dumpStub(lp *LPkg, src string) { _ = os.WriteFile(stubDumpPath(lp), []byte(src), 0o644) }

const preludeSrc = `
// M is the mathematical-integer type of contracts (translated to a wide bit-vector).
type M int64

func implies(a, b bool) bool { return !a || b }
func iff(a, b bool) bool { return a == b }
func forall(lo, hi int, f func(i int) bool) bool { panic("spec") }
func exists(lo, hi int, f func(i int) bool) bool { panic("spec") }
func held(m interface{}) bool { panic("spec") }
// nolocks(): no mutex is held; onlyheld(m): m is held and no other mutex is
func nolocks() bool { panic("spec") }
func onlyheld(m interface{}) bool { panic("spec") }
// lockswap(from, to): the held mutexes are those of the pre-state with from released and to
// acquired; lockdrop(from): ... with from released (two-state)
func lockswap(from, to interface{}) bool { panic("spec") }
func lockdrop(from interface{}) bool { panic("spec") }
// ghost(name, obj): ghost integer attribute "name" of object obj (a heap class "g:<name>")
func ghost(name string, obj interface{}) int { panic("spec") }
func LE16(b []byte, i int) uint16 { return uint16(b[i]) | uint16(b[i+1])<<8 }
func LE32(b []byte, i int) uint32 {
	return uint32(b[i]) | uint32(b[i+1])<<8 | uint32(b[i+2])<<16 | uint32(b[i+3])<<24
}
func LE64(b []byte, i int) uint64 {
	return uint64(b[i]) | uint64(b[i+1])<<8 | uint64(b[i+2])<<16 | uint64(b[i+3])<<24 |
		uint64(b[i+4])<<32 | uint64(b[i+5])<<40 | uint64(b[i+6])<<48 | uint64(b[i+7])<<56
}
// atomicDrop: total decrease (old-new) of the shared location over the atomic read-modify-write
// steps executed so far in the function under contract.
func atomicDrop() uint64 { panic("spec") }
// arrID: identity of the backing array of s (0 for nil).
func arrID(s []byte) int { panic("spec") }
// sameArr: the two slices share their backing array.
func sameArr(a, b []byte) bool { panic("spec") }
// sameSlice: same backing array, offset and length.
func sameSlice(a, b []byte) bool { panic("spec") }
// oldbyte(s, i): the byte s[i] had on entry to the function under contract (two-state).
func oldbyte(s []byte, i int) byte { panic("spec") }
// fresharr(s): the backing array of s did not exist on entry to the function.
func fresharr(s []byte) bool { panic("spec") }
// freshobj(p): the object p points to did not exist on entry to the function.
func freshobj(p interface{}) bool { panic("spec") }
// bytesUnchangedExcept(s, lo, hi): every byte of every array that existed on entry is unchanged,
// except possibly s[lo:hi].
func bytesUnchangedExcept(s []byte, lo, hi int) bool { panic("spec") }
func bytesUnchanged() bool { panic("spec") }
`

func ifaceQual(ld *Loaded, self *types.Package, used map[string]string) types.Qualifier {
	return func(p *types.Package) string {
		if p == self || p.Path() == self.Path() {
			return ""
		}
		if a, ok := used[p.Path()]; ok {
			return a
		}
		a := fmt.Sprintf("vcimp%d", len(used))
		used[p.Path()] = a
		return a
	}
}

type stubSig struct {
	params []stubParam
	decls  []string // "name type"
}

func (u *FuncUnit) sigParams(qual types.Qualifier, withResults bool) ([]stubParam, []string) {
	sig := u.Obj1.Type().(*types.Signature)
	var ps []stubParam
	var ds []string
	if r := sig.Recv(); r != nil {
		n := r.Name()
		if n == "" || n == "_" {
			n = "_vcrecv"
		}
		ps = append(ps, stubParam{Name: n, Kind: "recv"})
		ds = append(ds, n+" "+types.TypeString(r.Type(), qual))
	}
	for i := 0; i < sig.Params().Len(); i++ {
		p := sig.Params().At(i)
		n := p.Name()
		if n == "" || n == "_" {
			n = fmt.Sprintf("_vcp%d", i)
		}
		ps = append(ps, stubParam{Name: n, Kind: "param", Index: i})
		ds = append(ds, n+" "+types.TypeString(p.Type(), qual))
	}
	if withResults {
		for i := 0; i < sig.Results().Len(); i++ {
			p := sig.Results().At(i)
			n := u.ResNames[i]
			ps = append(ps, stubParam{Name: n, Kind: "result", Index: i})
			ds = append(ds, n+" "+types.TypeString(p.Type(), qual))
		}
	}
	return ps, ds
}

func freeIdents(expr string) ([]string, error) {
	e, err := parser.ParseExpr(expr)
	if err != nil {
		return nil, err
	}
	seen := map[string]bool{}
	var out []string
	var walk func(n ast.Node, bound map[string]bool)
	walk = func(n ast.Node, bound map[string]bool) {
		switch x := n.(type) {
		case nil:
			return
		case *ast.Ident:
			if !bound[x.Name] && !seen[x.Name] {
				seen[x.Name] = true
				out = append(out, x.Name)
			}
		case *ast.SelectorExpr:
			walk(x.X, bound)
		case *ast.KeyValueExpr:
			walk(x.Value, bound) // keys of struct literals are field names
			if _, ok := x.Key.(*ast.Ident); !ok {
				walk(x.Key, bound)
			}
		case *ast.FuncLit:
			nb := map[string]bool{}
			for k := range bound {
				nb[k] = true
			}
			for _, f := range x.Type.Params.List {
				for _, nm := range f.Names {
					nb[nm.Name] = true
				}
				walk(f.Type, bound)
			}
			// local declarations inside the literal body
			ast.Inspect(x.Body, func(m ast.Node) bool {
				if as, ok := m.(*ast.AssignStmt); ok && as.Tok == token.DEFINE {
					for _, l := range as.Lhs {
						if id, ok := l.(*ast.Ident); ok {
							nb[id.Name] = true
						}
					}
				}
				return true
			})
			ast.Inspect(x.Body, func(m ast.Node) bool {
				switch y := m.(type) {
				case *ast.FuncLit:
					walk(y, nb)
					return false
				case *ast.SelectorExpr:
					walk(y.X, nb)
					return false
				case *ast.KeyValueExpr:
					walk(y, nb)
					return false
				case *ast.Ident:
					walk(y, nb)
				}
				return true
			})
		default:
			ast.Inspect(n, func(m ast.Node) bool {
				if m == n {
					return true
				}
				switch m.(type) {
				case *ast.Ident, *ast.SelectorExpr, *ast.KeyValueExpr, *ast.FuncLit:
					walk(m, bound)
					return false
				}
				return true
			})
		}
	}
	walk(e, map[string]bool{})
	return out, nil
}

func findFuncDecl(files []*ast.File, info *types.Info, obj *types.Func) *ast.FuncDecl {
	for _, f := range files {
		for _, d := range f.Decls {
			if fd, ok := d.(*ast.FuncDecl); ok {
				if info.Defs[fd.Name] == obj {
					return fd
				}
			}
		}
	}
	return nil
}

func collectLoops(body *ast.BlockStmt) []ast.Stmt {
	var out []ast.Stmt
	if body == nil {
		return nil
	}
	ast.Inspect(body, func(n ast.Node) bool {
		switch n.(type) {
		case *ast.FuncLit:
			return false
		case *ast.ForStmt, *ast.RangeStmt:
			out = append(out, n.(ast.Stmt))
		}
		return true
	})
	return out
}

// resolveExtern: "pkg.Func" or "pkg.Type.Method" where pkg is the name of an imported package.
func resolveExtern(p *packages.Package, cf *ContractFile, key string) (*types.Func, error) {
	parts := strings.Split(key, ".")
	if len(parts) < 2 {
		return nil, fmt.Errorf("bad extern key %q", key)
	}
	var tp *types.Package
	var find func(q *packages.Package, seen map[string]bool)
	find = func(q *packages.Package, seen map[string]bool) {
		for path, ip := range q.Imports {
			if seen[path] || tp != nil {
				continue
			}
			seen[path] = true
			if ip.Name == parts[0] || path == parts[0] {
				tp = ip.Types
				return
			}
		}
		for path, ip := range q.Imports {
			_ = path
			if tp == nil && len(seen) < 2000 {
				find(ip, seen)
			}
		}
	}
	find(p, map[string]bool{})
	if tp == nil {
		return nil, fmt.Errorf("extern package %q is not imported", parts[0])
	}
	f, _, _, err := resolveFuncKey(tp, strings.Join(parts[1:], "."))
	return f, err
}

func resolveFuncKey(tp *types.Package, key string) (*types.Func, *types.Named, string, error) {
	parts := strings.Split(key, ".")
	if len(parts) == 1 {
		o := tp.Scope().Lookup(key)
		f, ok := o.(*types.Func)
		if !ok {
			return nil, nil, "", fmt.Errorf("function %s not found in %s", key, tp.Path())
		}
		return f, nil, "", nil
	}
	if len(parts) != 2 {
		return nil, nil, "", fmt.Errorf("bad function key %q", key)
	}
	o := tp.Scope().Lookup(parts[0])
	tn, ok := o.(*types.TypeName)
	if !ok {
		return nil, nil, "", fmt.Errorf("type %s not found in %s", parts[0], tp.Path())
	}
	named, _ := tn.Type().(*types.Named)
	if named == nil {
		return nil, nil, "", fmt.Errorf("%s is not a named type", parts[0])
	}
	if _, isIface := named.Underlying().(*types.Interface); isIface {
		obj, _, _ := types.LookupFieldOrMethod(named, false, tp, parts[1])
		f, ok := obj.(*types.Func)
		if !ok {
			return nil, nil, "", fmt.Errorf("interface method %s not found", key)
		}
		return f, named, parts[1], nil
	}
	for i := 0; i < named.NumMethods(); i++ {
		if named.Method(i).Name() == parts[1] {
			return named.Method(i), nil, "", nil
		}
	}
	return nil, nil, "", fmt.Errorf("method %s not found (contract drift)", key)
}

// driftError: a contract refers to something the current code no longer has (function, loop,
// statement, variable).  The unit is dropped from this run and reported as undecided.
type driftError struct{ Key, Msg string }

func (e *driftError) Error() string { return e.Key + ": " + e.Msg }

// genStub generates the stub, dropping (and recording in skip) every unit whose contract has
// drifted away from the code.
func (ld *Loaded) genStub(lp *LPkg, skip map[string]string) (string, error) {
	for {
		lp.Units = map[string]*FuncUnit{}
		cur := ""
		src, err := ld.genStubOnce(lp, skip, &cur)
		if err == nil {
			return src, nil
		}
		if cur == "" {
			return "", err
		}
		if _, dup := skip[cur]; dup {
			if lp.SkipFull[cur] {
				return "", err
			}
			if lp.SkipFull == nil {
				lp.SkipFull = map[string]bool{}
			}
			lp.SkipFull[cur] = true
			continue
		}
		skip[cur] = err.Error()
	}
}

func (ld *Loaded) genStubOnce(lp *LPkg, skip map[string]string, cur *string) (string, error) {
	p := lp.P1
	used := map[string]string{}
	qual := ifaceQual(ld, p.Types, used)
	var body strings.Builder
	body.WriteString(preludeSrc)
	if lp.CF == nil {
		// prelude only is pointless; no stub at all
		return "", nil
	}
	cf := lp.CF
	body.WriteString("\n// ---- spec functions\n")
	body.WriteString(cf.Spec)
	body.WriteString("\n")
	n := 0
	for _, fc := range cf.Funcs {
		n++
		reduced := false
		if _, dropped := skip[fc.Key]; dropped {
			if lp.SkipFull[fc.Key] {
				continue
			}
			reduced = true
		}
		*cur = fc.Key
		fmt.Fprintf(&body, "// @unit %s\n", fc.Key)
		u := &FuncUnit{Pkg: lp, C: fc, Key: fc.Key, Loops: map[int]*LoopUnit{}, id: fmt.Sprintf("%d", n)}
		var obj *types.Func
		var ifaceT *types.Named
		var ifaceM string
		var err error
		if fc.Extern {
			obj, err = resolveExtern(p, cf, fc.Key)
		} else {
			obj, ifaceT, ifaceM, err = resolveFuncKey(p.Types, fc.Key)
		}
		if err != nil {
			return "", fmt.Errorf("%s:%d: %v", cf.Path, fc.Line, err)
		}
		u.Obj1 = obj
		u.IfaceT, u.IfaceM = ifaceT, ifaceM
		sig := obj.Type().(*types.Signature)
		// result names
		for i := 0; i < sig.Results().Len(); i++ {
			nm := sig.Results().At(i).Name()
			if i < len(fc.ResNames) && fc.ResNames[i] != "" && fc.ResNames[i] != "_" {
				nm = fc.ResNames[i]
			}
			if nm == "" || nm == "_" {
				nm = fmt.Sprintf("_vcr%d", i)
			}
			u.ResNames = append(u.ResNames, nm)
		}
		if ifaceT == nil && !fc.Extern {
			u.Decl = findFuncDecl(p.Syntax, p.TypesInfo, obj)
			if u.Decl == nil {
				return "", fmt.Errorf("%s:%d: no declaration for %s", cf.Path, fc.Line, fc.Key)
			}
			u.AstLoops = collectLoops(u.Decl.Body)
		}
		lp.Units[fc.Key] = u
		_, pd := u.sigParams(qual, false)
		if ifaceT != nil && !(len(pd) > 0 && strings.HasPrefix(pd[0], "_vcrecv ")) {
			// interface method contract: receiver is the interface value
			pd = append([]string{"_vcrecv " + types.TypeString(ifaceT, qual)}, pd...)
		}
		// fix variadic: "...T" -> "[]T"
		for i := range pd {
			pd[i] = strings.Replace(pd[i], " ...", " []", 1)
		}
		plist := strings.Join(pd, ", ")
		emit := func(kind string, params string, clauses []Clause, extra string) {
			fmt.Fprintf(&body, "func _vc%s_%s(%s) (", kind, u.id, params)
			for i := range clauses {
				if i > 0 {
					body.WriteString(", ")
				}
				fmt.Fprintf(&body, "c%d bool", i)
			}
			if extra != "" {
				if len(clauses) > 0 {
					body.WriteString(", ")
				}
				body.WriteString("d M")
			}
			body.WriteString(") {\n")
			for i, c := range clauses {
				fmt.Fprintf(&body, "\tc%d = %s // line %d\n", i, c.Expr, c.Line)
			}
			if extra != "" {
				fmt.Fprintf(&body, "\td = M(%s)\n", extra)
			}
			body.WriteString("\treturn\n}\n")
		}
		if len(fc.Requires) > 0 {
			emit("pre", plist, fc.Requires, "")
		}
		oldDecl := ""
		if len(fc.Olds) > 0 {
			fmt.Fprintf(&body, "func _vcold_%s(%s) (", u.id, plist)
			for i, o := range fc.Olds {
				if i > 0 {
					body.WriteString(", ")
				}
				fmt.Fprintf(&body, "%s %s", o.Name, o.Type)
				oldDecl += ", " + o.Name + " " + o.Type
			}
			body.WriteString(") {\n")
			for _, o := range fc.Olds {
				fmt.Fprintf(&body, "\t%s = %s // line %d\n", o.Name, o.Expr, o.Line)
			}
			body.WriteString("\treturn\n}\n")
		}
		if len(fc.Ensures)+len(fc.Assumes) > 0 {
			_, pdr := u.sigParams(qual, true)
			if ifaceT != nil && !(len(pdr) > 0 && strings.HasPrefix(pdr[0], "_vcrecv ")) {
				pdr = append([]string{"_vcrecv " + types.TypeString(ifaceT, qual)}, pdr...)
			}
			for i := range pdr {
				pdr[i] = strings.Replace(pdr[i], " ...", " []", 1)
			}
			emit("post", strings.Join(pdr, ", ")+oldDecl, append(append([]Clause{}, fc.Ensures...), fc.Assumes...), "")
		}
		// loops
		if reduced {
			u.Drifted = true
			continue
		}
		// Which loop of the code each annotated loop of the contract is: the loop at the recorded
		// ordinal if its header still reads the same; else the only unclaimed loop with that header
		// (loops were added or removed before it); else the loop at the recorded ordinal, if no other
		// annotation claims it (its header was edited: LoopDrift); else none (the loop is gone).
		loopOf := map[*LoopContract]int{}
		claimedLoop := map[int]bool{}
		hdr := func(i int) string { return squeeze(loopCondText(ld.Fset, u.AstLoops[i])) }
		for _, lc := range fc.Loops {
			if lc.Ordinal >= 0 && lc.Ordinal < len(u.AstLoops) && (lc.CondText == "" || hdr(lc.Ordinal) == squeeze(lc.CondText)) {
				loopOf[lc] = lc.Ordinal
				claimedLoop[lc.Ordinal] = true
			}
		}
		for _, lc := range fc.Loops {
			if _, ok := loopOf[lc]; ok || lc.CondText == "" {
				continue
			}
			cand := -1
			for i := range u.AstLoops {
				if !claimedLoop[i] && hdr(i) == squeeze(lc.CondText) {
					if cand >= 0 {
						cand = -2
						break
					}
					cand = i
				}
			}
			if cand >= 0 {
				loopOf[lc] = cand
				claimedLoop[cand] = true
			}
		}
		for _, lc := range fc.Loops {
			co, ok := loopOf[lc]
			if !ok && lc.Ordinal >= 0 && lc.Ordinal < len(u.AstLoops) && !claimedLoop[lc.Ordinal] && !(lc.Of > 0 && len(u.AstLoops) < lc.Of) {
				co, ok = lc.Ordinal, true
				claimedLoop[co] = true
				u.LoopDrift = append(u.LoopDrift, fmt.Sprintf("%s:%d: loop %d of %s is %q, contract says %q", cf.Path, lc.Line, lc.Ordinal, fc.Key, loopCondText(ld.Fset, u.AstLoops[co]), lc.CondText))
			}
			if !ok {
				// the loop is gone: its annotations have nothing to attach to; the rest of the
				// contract still applies (and must now hold without them)
				u.Dropped = append(u.Dropped, fmt.Sprintf("annotations of loop %d %q (loop no longer exists)", lc.Ordinal, lc.CondText))
				continue
			}
			stmt := u.AstLoops[co]
			lu := &LoopUnit{C: lc, Stmt: stmt}
			u.Loops[co] = lu
			// signature: recv/params/olds, then locals mentioned
			ps, ds := u.sigParams(qual, false)
			for i := range ds {
				ds[i] = strings.Replace(ds[i], " ...", " []", 1)
			}
			names := map[string]int{}
			for i, sp := range ps {
				names[sp.Name] = i
			}
			for i, o := range fc.Olds {
				ps = append(ps, stubParam{Name: o.Name, Kind: "old", Index: i})
				ds = append(ds, o.Name+" "+o.Type)
				names[o.Name] = len(ps) - 1
			}
			var bodyPos token.Pos
			switch s := stmt.(type) {
			case *ast.ForStmt:
				bodyPos = s.Body.Lbrace + 1
			case *ast.RangeStmt:
				bodyPos = s.Body.Lbrace + 1
			}
			exprs := []string{}
			for _, c := range lc.Invariants {
				exprs = append(exprs, c.Expr)
			}
			if lc.Decreases != "" {
				exprs = append(exprs, lc.Decreases)
			}
			for _, ex := range exprs {
				ids, err := freeIdents(ex)
				if err != nil {
					return "", fmt.Errorf("%s:%d: %v", cf.Path, lc.Line, err)
				}
				for _, id := range ids {
					if id == "rangeidx" {
						// the (possibly unnamed) index of a range loop: next index to be visited
						if _, ok := names[id]; !ok {
							names[id] = len(ps)
							ps = append(ps, stubParam{Name: id, Kind: "rangeidx"})
							ds = append(ds, "rangeidx int")
						}
						continue
					}
					sc := p.Types.Scope().Innermost(bodyPos)
					if sc == nil {
						continue
					}
					_, o := sc.LookupParent(id, bodyPos)
					v, ok := o.(*types.Var)
					if !ok || v.Parent() == p.Types.Scope() || v.Parent() == types.Universe || v.IsField() {
						continue
					}
					// is it a param/recv (same object)? then already present
					isParam := false
					if r := sig.Recv(); r != nil && r == v {
						isParam = true
					}
					for i := 0; i < sig.Params().Len(); i++ {
						if sig.Params().At(i) == v {
							isParam = true
						}
					}
					sp := stubParam{Name: id, Kind: "local", Local: LocalRef{Name: id, Pos: v.Pos(), Type: v.Type()}}
					d := id + " " + types.TypeString(v.Type(), qual)
					if isParam {
						// parameters may be reassigned in the body; inside a loop the *current* value is meant.
						sp.Kind = "local"
					}
					if i, ok := names[id]; ok {
						ps[i] = sp
						ds[i] = d
					} else {
						names[id] = len(ps)
						ps = append(ps, sp)
						ds = append(ds, d)
					}
				}
			}
			lu.Params = ps
			fmt.Fprintf(&body, "func _vcinv_%s_%d(%s) (", u.id, co, strings.Join(ds, ", "))
			for i := range lc.Invariants {
				if i > 0 {
					body.WriteString(", ")
				}
				fmt.Fprintf(&body, "c%d bool", i)
			}
			if lc.Decreases != "" {
				if len(lc.Invariants) > 0 {
					body.WriteString(", ")
				}
				body.WriteString("d M")
			}
			body.WriteString(") {\n")
			for i, c := range lc.Invariants {
				fmt.Fprintf(&body, "\tc%d = %s // line %d\n", i, c.Expr, c.Line)
			}
			if lc.Decreases != "" {
				fmt.Fprintf(&body, "\td = M(%s)\n", lc.Decreases)
			}
			body.WriteString("\treturn\n}\n")
		}
		// atomic-step predicates
		for k, sc := range fc.Steps {
			_, ds := u.sigParams(qual, false)
			for i := range ds {
				ds[i] = strings.Replace(ds[i], " ...", " []", 1)
			}
			for _, o := range fc.Olds {
				ds = append(ds, o.Name+" "+o.Type)
			}
			ds = append(ds, "old64 uint64", "new64 uint64")
			fmt.Fprintf(&body, "func _vcstep_%s_%d(%s) bool {\n\treturn %s // line %d\n}\n", u.id, k, strings.Join(ds, ", "), sc.Expr, sc.Line)
		}
		// point assertions
		for k, ac := range fc.Asserts {
			if u.Decl == nil {
				continue
			}
			if why, bad := lp.SkipAssert[fmt.Sprintf("%s#%d", fc.Key, k)]; bad {
				u.AssertDrift = append(u.AssertDrift, fmt.Sprintf("%s:%d: %s: assertion %s: %s", cf.Path, ac.Line, fc.Key, assertLabel(ac, k), why))
				continue
			}
			stmt, err := findStmt(ld.Fset, u.Decl.Body, ac.Anchor)
			if err != nil {
				u.AssertDrift = append(u.AssertDrift, fmt.Sprintf("%s:%d: %s: assertion %s: %v", cf.Path, ac.Line, fc.Key, assertLabel(ac, k), err))
				continue
			}
			if ac.When == "in" {
				// `in "if cond"`: at the start of the then-branch of that if statement
				ifs, ok := stmt.(*ast.IfStmt)
				if !ok || len(ifs.Body.List) == 0 {
					return "", fmt.Errorf("%s:%d: contract drift: %s: anchor %q is not an if statement with a body", cf.Path, ac.Line, fc.Key, ac.Anchor)
				}
				stmt = ifs.Body.List[0]
			}
			au := &AssertUnit{C: ac, Stmt: stmt, Index: k}
			u.Asserts = append(u.Asserts, au)
			ps, ds := u.sigParams(qual, false)
			for i := range ds {
				ds[i] = strings.Replace(ds[i], " ...", " []", 1)
			}
			names := map[string]int{}
			for i, sp := range ps {
				names[sp.Name] = i
			}
			for i, o := range fc.Olds {
				ps = append(ps, stubParam{Name: o.Name, Kind: "old", Index: i})
				ds = append(ds, o.Name+" "+o.Type)
				names[o.Name] = len(ps) - 1
			}
			scopePos := stmt.Pos()
			if ac.When == "after" {
				scopePos = stmt.End()
			}
			ids, err := freeIdents(ac.Clause.Expr)
			if err != nil {
				return "", fmt.Errorf("%s:%d: %v", cf.Path, ac.Line, err)
			}
			for _, id := range ids {
				isSnap := false
				for _, prev := range fc.Asserts[:k] {
					if prev.Snap == id {
						sp := stubParam{Name: id, Kind: "snap"}
						d := id + " " + prev.SnapType
						if i, ok := names[id]; ok {
							ps[i], ds[i] = sp, d
						} else {
							names[id] = len(ps)
							ps = append(ps, sp)
							ds = append(ds, d)
						}
						isSnap = true
					}
				}
				if isSnap {
					continue
				}
				sc := p.Types.Scope().Innermost(scopePos)
				if sc == nil {
					continue
				}
				_, o := sc.LookupParent(id, scopePos)
				if o == nil {
					// not in scope at the anchor (e.g. a loop-body variable named at the loop's
					// post statement): the only variable of that name declared inside the scope of the
					// anchor (the loop), if there is exactly one
					o = uniqueLocal(sc, id, u.Decl.Body.Pos(), u.Decl.Body.End())
				}
				v, ok := o.(*types.Var)
				if !ok || v.Parent() == p.Types.Scope() || v.Parent() == types.Universe || v.IsField() {
					continue
				}
				sp := stubParam{Name: id, Kind: "local", Local: LocalRef{Name: id, Pos: v.Pos(), Type: v.Type()}}
				d := id + " " + types.TypeString(v.Type(), qual)
				if i, ok := names[id]; ok {
					ps[i] = sp
					ds[i] = d
				} else {
					names[id] = len(ps)
					ps = append(ps, sp)
					ds = append(ds, d)
				}
			}
			au.Params = ps
			rt := "bool"
			if ac.Snap != "" {
				rt = ac.SnapType
			}
			fmt.Fprintf(&body, "func _vcassert_%s_%d(%s) %s {\n\treturn %s // line %d\n}\n", u.id, k, strings.Join(ds, ", "), rt, ac.Clause.Expr, ac.Line)
		}
	}
	*cur = ""
	body.WriteString("// @unit \n")
	for i, l := range cf.Lemmas {
		fmt.Fprintf(&body, "func _vclemma_%d() bool { return %s } // %s line %d\n", i, l.Expr, l.Name, l.Line)
	}
	var hdr strings.Builder
	fmt.Fprintf(&hdr, "// Code generated by govc from %s; DO NOT EDIT. In-memory only.\n\npackage %s\n\n", cf.Path, p.Name)
	// imports
	var ipaths []string
	for path := range used {
		ipaths = append(ipaths, path)
	}
	sort.Strings(ipaths)
	if len(ipaths)+len(cf.Imports) > 0 {
		hdr.WriteString("import (\n")
		for _, path := range ipaths {
			fmt.Fprintf(&hdr, "\t%s %q\n", used[path], path)
		}
		for _, path := range cf.Imports {
			fmt.Fprintf(&hdr, "\t%q\n", path)
		}
		hdr.WriteString(")\n")
	}
	return hdr.String() + body.String(), nil
}

// findStmt locates the unique statement of body whose (whitespace-squeezed) source text starts
// with anchor; "text#k" selects the k-th match.
// uniqueLocal finds the single local variable called name declared in scope sc or a scope nested in it.
func uniqueLocal(sc *types.Scope, name string, lo, hi token.Pos) types.Object {
	var found []types.Object
	var walk func(s *types.Scope)
	walk = func(s *types.Scope) {
		if o := s.Lookup(name); o != nil && o.Pos() >= lo && o.Pos() < hi {
			found = append(found, o)
		}
		for i := 0; i < s.NumChildren(); i++ {
			walk(s.Child(i))
		}
	}
	if sc != nil {
		walk(sc)
	}
	if len(found) == 1 {
		return found[0]
	}
	return nil
}

func findStmt(fset *token.FileSet, body *ast.BlockStmt, anchor string) (ast.Stmt, error) {
	want := -1
	if i := strings.LastIndex(anchor, "#"); i > 0 {
		if n, err := strconv.Atoi(anchor[i+1:]); err == nil {
			want = n
			anchor = anchor[:i]
		}
	}
	a := squeeze(anchor)
	var found []ast.Stmt
	ast.Inspect(body, func(n ast.Node) bool {
		if _, ok := n.(*ast.FuncLit); ok {
			return false
		}
		if s, ok := n.(ast.Stmt); ok {
			if _, isBlock := s.(*ast.BlockStmt); !isBlock {
				if strings.HasPrefix(squeeze(nodeText(fset, s)), a) {
					found = append(found, s)
				}
			}
		}
		return true
	})
	// a statement and its own first sub-statement may both match (e.g. labeled); keep outermost of equal start
	var uniq []ast.Stmt
	for _, s := range found {
		dup := false
		for _, t := range uniq {
			if t.Pos() == s.Pos() {
				dup = true
			}
		}
		if !dup {
			uniq = append(uniq, s)
		}
	}
	if want >= 0 {
		if want < len(uniq) {
			return uniq[want], nil
		}
		return nil, fmt.Errorf("statement %q#%d not found", anchor, want)
	}
	if len(uniq) == 0 {
		// tolerate small edits inside the statement: unique longest common prefix covering
		// at least 60% of the anchor
		var best ast.Stmt
		bestN, ties := 0, 0
		ast.Inspect(body, func(n ast.Node) bool {
			if _, ok := n.(*ast.FuncLit); ok {
				return false
			}
			if s, ok := n.(ast.Stmt); ok {
				if _, isBlock := s.(*ast.BlockStmt); !isBlock {
					t := squeeze(nodeText(fset, s))
					k := 0
					for k < len(t) && k < len(a) && t[k] == a[k] {
						k++
					}
					if k > bestN {
						best, bestN, ties = s, k, 0
					} else if k == bestN && best != nil && s.Pos() != best.Pos() {
						ties++
					}
				}
			}
			return true
		})
		if best != nil && ties == 0 && bestN*10 >= len(a)*6 {
			return best, nil
		}
		return nil, fmt.Errorf("statement %q not found", anchor)
	}
	if len(uniq) > 1 {
		return nil, fmt.Errorf("statement %q is ambiguous (%d matches; use #k)", anchor, len(uniq))
	}
	return uniq[0], nil
}

func squeeze(s string) string { return strings.Join(strings.Fields(s), " ") }

func nodeText(fset *token.FileSet, n ast.Node) string {
	if n == nil {
		return ""
	}
	p0 := fset.Position(n.Pos())
	p1 := fset.Position(n.End())
	data, err := os.ReadFile(p0.Filename)
	if err != nil || p0.Offset < 0 || p1.Offset > len(data) || p0.Offset > p1.Offset {
		return ""
	}
	return string(data[p0.Offset:p1.Offset])
}

func loopCondText(fset *token.FileSet, s ast.Stmt) string {
	switch l := s.(type) {
	case *ast.ForStmt:
		if l.Cond == nil {
			return "for"
		}
		return squeeze(nodeText(fset, l.Cond))
	case *ast.RangeStmt:
		return "range " + squeeze(nodeText(fset, l.X))
	}
	return ""
}

// bind resolves stub functions and real functions in the final SSA.
func (ld *Loaded) bind(lp *LPkg) error {
	if lp.CF == nil {
		return nil
	}
	for _, u := range lp.Units {
		if u.IfaceT != nil {
			ld.Iface[lp.Path+"."+u.IfaceT.Obj().Name()+"."+u.IfaceM] = u
		} else if u.C.Extern {
			u.Fn = ld.Prog.FuncValue(u.Obj1)
			if u.Fn == nil {
				return fmt.Errorf("no SSA function for extern %s", u.Key)
			}
			// assumed contracts on other modules' functions hold for calls made from this package only
			if lp.Extern == nil {
				lp.Extern = map[*ssa.Function]*FuncUnit{}
			}
			lp.Extern[u.Fn] = u
		} else {
			obj2, _, _, err := resolveFuncKey(lp.TPkg, u.Key)
			if err != nil {
				return err
			}
			u.Fn = ld.Prog.FuncValue(obj2)
			if u.Fn == nil {
				return fmt.Errorf("no SSA function for %s", u.Key)
			}
			ld.ByFn[u.Fn] = u
		}
		u.Pre = lp.SPkg.Func("_vcpre_" + u.id)
		u.Old = lp.SPkg.Func("_vcold_" + u.id)
		u.Post = lp.SPkg.Func("_vcpost_" + u.id)
		for k, lu := range u.Loops {
			lu.Fn = lp.SPkg.Func(fmt.Sprintf("_vcinv_%s_%d", u.id, k))
		}
		for _, au := range u.Asserts {
			au.Fn = lp.SPkg.Func(fmt.Sprintf("_vcassert_%s_%d", u.id, au.Index))
		}
		u.Steps = nil
		for k := range u.C.Steps {
			u.Steps = append(u.Steps, lp.SPkg.Func(fmt.Sprintf("_vcstep_%s_%d", u.id, k)))
		}
	}
	for i, l := range lp.CF.Lemmas {
		lp.Lemmas = append(lp.Lemmas, &LemmaUnit{L: l, Fn: lp.SPkg.Func(fmt.Sprintf("_vclemma_%d", i)), id: fmt.Sprintf("%d", i)})
	}
	return nil
}

// position index: map from the token.Pos go/ssa attaches to an instruction to the AST node.
func (lp *LPkg) nodeAt(fset *token.FileSet, pos token.Pos) ast.Node {
	if !pos.IsValid() {
		return nil
	}
	if lp.posIdx == nil {
		lp.posIdx = map[*ast.File]map[token.Pos]ast.Node{}
	}
	for _, f := range lp.Files {
		if f.Pos() <= pos && pos < f.End() {
			idx, ok := lp.posIdx[f]
			if !ok {
				idx = map[token.Pos]ast.Node{}
				ast.Inspect(f, func(n ast.Node) bool {
					switch x := n.(type) {
					case *ast.IndexExpr:
						idx[x.Lbrack] = x
					case *ast.SliceExpr:
						idx[x.Lbrack] = x
					case *ast.CallExpr:
						idx[x.Lparen] = x
					case *ast.StarExpr:
						idx[x.Star] = x
					case *ast.SelectorExpr:
						if _, ok := idx[x.Sel.Pos()]; !ok {
							idx[x.Sel.Pos()] = x
						}
					case *ast.BinaryExpr:
						idx[x.OpPos] = x
					case *ast.UnaryExpr:
						idx[x.OpPos] = x
					case *ast.TypeAssertExpr:
						idx[x.Lparen] = x
					case *ast.AssignStmt:
						if _, ok := idx[x.TokPos]; !ok {
							idx[x.TokPos] = x
						}
					case *ast.IncDecStmt:
						idx[x.TokPos] = x
					case *ast.SendStmt:
						idx[x.Arrow] = x
					case *ast.GoStmt:
						idx[x.Go] = x
					case *ast.DeferStmt:
						idx[x.Defer] = x
					case *ast.ReturnStmt:
						idx[x.Return] = x
					}
					return true
				})
				lp.posIdx[f] = idx
			}
			return idx[pos]
		}
	}
	return nil
}

func assertLabel(ac *AssertContract, k int) string {
	if ac.Snap != "" {
		return "snap " + ac.Snap
	}
	if ac.Clause.Label != "" {
		return ac.Clause.Label
	}
	return fmt.Sprintf("#%d", k)
}

var assertStubRe = regexp.MustCompile(`^func _vcassert_[0-9]+_([0-9]+)\(`)

// enclosingAssertStub: the ordinal k of the point-assertion stub function containing line l of
// the stub source, or -1.
func enclosingAssertStub(lines []string, l int) int {
	for ; l >= 0 && l < len(lines); l-- {
		if strings.HasPrefix(lines[l], "func ") {
			if m := assertStubRe.FindStringSubmatch(lines[l]); m != nil {
				k, _ := strconv.Atoi(m[1])
				return k
			}
			return -1
		}
	}
	return -1
}
