package main

import (
	"fmt"
	"go/token"
	"go/types"
	"strings"

	"golang.org/x/tools/go/ssa"
)

func (x *Exec) call(fr *Frame, st *State, instr *ssa.Call, cc *ssa.CallCommon) Val {
	var args []Val
	for _, a := range cc.Args {
		args = append(args, x.val(fr, a))
	}
	var fnv Val
	if cc.Value != nil {
		fnv = x.val(fr, cc.Value)
	}
	return x.callCommon(fr, st, instr, cc, args, fnv, instr.Pos())
}

func inModule(fn *ssa.Function) bool {
	if fn.Pkg == nil {
		// synthetic wrappers/bound methods: look at the object
		if fn.Object() != nil && fn.Object().Pkg() != nil {
			p := fn.Object().Pkg().Path()
			return p == modulePath || strings.HasPrefix(p, modulePath+"/")
		}
		return false
	}
	p := fn.Pkg.Pkg.Path()
	return p == modulePath || strings.HasPrefix(p, modulePath+"/")
}

func resultType(cc *ssa.CallCommon) types.Type {
	sig := cc.Signature()
	switch sig.Results().Len() {
	case 0:
		return types.NewTuple()
	case 1:
		return sig.Results().At(0).Type()
	}
	return sig.Results()
}

// callCommon handles every kind of call. instr may be nil (deferred calls).
func (x *Exec) callCommon(fr *Frame, st *State, instr *ssa.Call, cc *ssa.CallCommon, args []Val, fnv Val, pos token.Pos) Val {
	var ins ssa.Instruction
	if instr != nil {
		ins = instr
	}
	resT := resultType(cc)
	for _, a := range args {
		if a.Ptr != nil && a.Ptr.Kind == PLoc {
			x.boxEsc = true // address of a boxed local handed to a callee
		}
	}
	if cc.IsInvoke() {
		return x.invoke(fr, st, ins, cc, args, fnv, resT)
	}
	switch f := cc.Value.(type) {
	case *ssa.Builtin:
		return x.builtin(fr, st, ins, f, args, resT)
	}
	var callee *ssa.Function
	var bindings []Val
	if fnv.Clo != nil {
		callee = fnv.Clo.Fn
		bindings = fnv.Clo.Bindings
	} else if f, ok := cc.Value.(*ssa.Function); ok {
		callee = f
	}
	if callee == nil {
		x.note("dynamic call through %s: havoc", cc.Value.Type())
		if !fr.spec && ins != nil && len(fnv.L) == 1 {
			// calling a nil function value panics (opt-in kind: see verifyUnit)
			x.addObl(fr, st, "nilfunc", ins, "", x.tb.Not(x.tb.Eq(fnv.L[0], x.tb.BVInt(0, 64))))
		}
		return x.opaqueCall(fr, st, nil, args, resT, true)
	}
	return x.callStatic(fr, st, ins, callee, args, bindings, resT)
}

func (x *Exec) callStatic(fr *Frame, st *State, ins ssa.Instruction, callee *ssa.Function, args []Val, bindings []Val, resT types.Type) Val {
	name := callee.String()
	// bound-method closures / thunks: unwrap
	if callee.Synthetic != "" && callee.Blocks != nil && (strings.HasPrefix(callee.Synthetic, "bound method wrapper") || strings.HasPrefix(callee.Synthetic, "wrapper for")) {
		return x.inline(fr, st, ins, callee, args, bindings, resT)
	}
	if r, ok := x.special(fr, st, ins, callee, name, args, resT); ok {
		return r
	}
	if fr.spec {
		if callee.Blocks == nil {
			return x.ufCall(callee, args, resT)
		}
		if isSpecBody(callee) {
			return x.ufCall(callee, args, resT)
		}
		return x.inline(fr, st, ins, callee, args, bindings, resT)
	}
	if u, ok := x.ld.ByFn[callee]; ok && !u.C.Inline {
		return x.callContract(fr, st, ins, u, callee, args, resT)
	}
	if fr.lpkg != nil && fr.lpkg.Extern != nil {
		if u, ok := fr.lpkg.Extern[callee]; ok {
			x.assumed["assumed contract on dependency: "+u.Key+" (calls from package "+fr.lpkg.Name+")"] = true
			return x.callContract(fr, st, ins, u, callee, args, resT)
		}
	}
	if callee.Blocks != nil && inModule(callee) && x.canInline(fr, callee) {
		return x.inline(fr, st, ins, callee, args, bindings, resT)
	}
	return x.opaqueCall(fr, st, callee, args, resT, false)
}

// isSpecBody: body is just panic("spec")
func isSpecBody(fn *ssa.Function) bool {
	if len(fn.Blocks) != 1 {
		return false
	}
	for _, i := range fn.Blocks[0].Instrs {
		if _, ok := i.(*ssa.Panic); ok {
			return true
		}
	}
	return false
}

func (x *Exec) ufCall(callee *ssa.Function, args []Val, resT types.Type) Val {
	var as []*Term
	for _, a := range args {
		as = append(as, a.L...)
	}
	ls := x.leaves(resT)
	out := make([]*Term, len(ls))
	for i, l := range ls {
		out[i] = x.tb.UF("spec:"+callee.String()+l.Path, l.Sort, as...)
	}
	return Val{T: resT, L: out}
}

func hasLoop(fn *ssa.Function) bool {
	if fn.Blocks == nil {
		return false
	}
	idx := map[*ssa.BasicBlock]int{}
	for i, b := range fn.Blocks {
		idx[b] = i
	}
	for _, b := range fn.Blocks {
		for _, s := range b.Succs {
			if s.Dominates(b) {
				return true
			}
		}
	}
	return false
}

func fnSize(fn *ssa.Function) int {
	n := 0
	for _, b := range fn.Blocks {
		n += len(b.Instrs)
	}
	return n
}

func (x *Exec) canInline(fr *Frame, callee *ssa.Function) bool {
	if u, ok := x.ld.ByFn[callee]; ok && u.C.NoInline {
		return false
	}
	if fr.depth >= x.cfg.InlineDepth {
		return false
	}
	if x.lockStateOn() && x.top != nil && x.top.fn.Pkg != nil && callee.Pkg != x.top.fn.Pkg && !fr.spec && x.effectsOf(callee).Locks {
		// lock typestate of this package only: functions of other packages are called, not inlined
		// (they are assumed to leave every mutex as they found it)
		return false
	}
	for f := fr; f != nil; f = f.parent {
		if f.fn == callee {
			return false
		}
	}
	if hasLoop(callee) {
		return false
	}
	if callee.Recover != nil {
		return false
	}
	if fnSize(callee) > x.cfg.InlineSize {
		return false
	}
	return true
}

func shortFn(fn *ssa.Function) string {
	s := fn.String()
	s = strings.ReplaceAll(s, modulePath+"/", "")
	s = strings.ReplaceAll(s, modulePath+".", "")
	s = strings.ReplaceAll(s, "(", "")
	s = strings.ReplaceAll(s, ")", "")
	s = strings.ReplaceAll(s, "*", "")
	return s
}

func (x *Exec) inline(fr *Frame, st *State, ins ssa.Instruction, callee *ssa.Function, args []Val, bindings []Val, resT types.Type) Val {
	nf := x.newFrame(callee, fr)
	nf.path = fr.path + shortFn(callee) + "/"
	nf.args = args
	nf.bindings = bindings
	for i, p := range callee.Params {
		if i < len(args) {
			a := args[i]
			a.T = p.Type()
			nf.vals[p] = a
		}
	}
	exit, res := x.runFunc(nf, st)
	*st = *exit
	res.T = resT
	return res
}

// ---------- modular call through a contract

func (x *Exec) callContract(fr *Frame, st *State, ins ssa.Instruction, u *FuncUnit, callee *ssa.Function, args []Val, resT types.Type) Val {
	tb := x.tb
	cname := u.Pkg.Name + "." + u.Key
	if u.C.Trusted {
		x.assumed["trusted contract: "+cname] = true
	}
	// preconditions
	if u.Pre != nil {
		pre := x.runSpec(u.Pre, st, args, nil)
		for k, c := range u.C.Requires {
			lbl := fmt.Sprintf("%s.%d", shortKey(u), k)
			if c.Label != "" {
				lbl = shortKey(u) + "." + c.Label
			}
			nb := len(x.obls)
			x.addObl(fr, st, "pre", ins, lbl+"@"+anchorOf(x, fr, ins), pre.L[k])
			if len(x.obls) > nb && changesLockState(u) {
				// the callee's contract describes a change of the lock state (or is merely assumed):
				// it may only be relied on where its lock-state precondition holds
				x.obls[len(x.obls)-1].Tag = c.Expr
			}
			if x.unit == nil || !x.unit.C.Partial || !lockClause(c.Expr) {
				// (in a partial unit a lock-state precondition that is not generated as an obligation is
				// not assumed either: assuming it against the tracked lock state would make everything
				// after the call vacuous)
				x.assume(st, pre.L[k])
			}
		}
	}
	// old values
	var olds []Val
	var pre0 *State
	if u.Old != nil || u.Post != nil {
		pre0 = st.clone()
	}
	if u.Old != nil {
		ov := x.runSpec(u.Old, st, args, nil)
		off := 0
		tt, _ := ov.T.(*types.Tuple)
		if tt == nil {
			olds = []Val{ov}
		} else {
			for i := 0; i < tt.Len(); i++ {
				n := x.nleaves(tt.At(i).Type())
				olds = append(olds, Val{T: tt.At(i).Type(), L: ov.L[off : off+n]})
				off += n
			}
		}
	}
	// effects
	if !fr.spec {
		x.bumpNow(st)
	}
	x.applyEffects(st, u, callee)
	if len(u.C.Steps) > 0 {
		// the callee performs atomic steps of its own: the caller's step counter is unknown afterwards
		x.havocClass(st, "g:adrop", x.tb.Array(x.tb.BV(64), x.tb.BV(64)))
	}
	// results
	res := x.freshVal(resT, "r_"+u.Key)
	x.assumeWF(st, resT, res.L)
	if !fr.spec {
		lv := x.leaves(resT)
		for k, l := range lv {
			if l.Kind == LRef && l.Path != "#val" && !strings.HasSuffix(l.Path, "#val") && k < len(res.L) {
				x.assumeAllocated(st, res.L[k])
			}
		}
	}
	if u.Post != nil {
		pargs := append([]Val{}, args...)
		if tt, ok := resT.(*types.Tuple); ok {
			off := 0
			for i := 0; i < tt.Len(); i++ {
				n := x.nleaves(tt.At(i).Type())
				pargs = append(pargs, Val{T: tt.At(i).Type(), L: res.L[off : off+n]})
				off += n
			}
		} else {
			pargs = append(pargs, res)
		}
		pargs = append(pargs, olds...)
		post := x.runSpec2(u.Post, st, pre0, pargs)
		x.assume(st, tb.And(post.L...))
		for _, a := range u.C.Assumes {
			x.assumed[fmt.Sprintf("assumed postcondition of %s: %s", cname, a.Expr)] = true
		}
	}
	return res
}

func shortKey(u *FuncUnit) string { return u.Key }

func lockClause(e string) bool {
	for _, w := range []string{"held(", "lockswap(", "lockdrop(", "nolocks(", "sending("} {
		if strings.Contains(e, w) {
			return true
		}
	}
	return false
}

func changesLockState(u *FuncUnit) bool {
	if u.C.Trusted {
		return true
	}
	for _, c := range append(append([]Clause{}, u.C.Ensures...), u.C.Assumes...) {
		for _, w := range []string{"held(", "lockswap(", "lockdrop(", "nolocks(", "sending("} {
			if strings.Contains(c.Expr, w) {
				return true
			}
		}
	}
	return false
}

func anchorOf(x *Exec, fr *Frame, ins ssa.Instruction) string {
	if ins == nil {
		return "defer"
	}
	t, _ := x.anchor(fr, ins)
	return t
}

func (x *Exec) applyEffects(st *State, u *FuncUnit, callee *ssa.Function) {
	if u != nil && u.C.HasMod {
		eff := &Effects{Classes: map[string]bool{}}
		for _, m := range u.C.Modifies {
			if m == "*" {
				eff.Top = true
			} else {
				eff.Classes[resolveClass(u, m)] = true
			}
		}
		if callee != nil && callee.Blocks != nil {
			inf := x.effectsOf(callee)
			if inf.Top || !subset(inf.Classes, eff.Classes) {
				x.assumed["declared frame of "+u.Pkg.Name+"."+u.Key+" is narrower than the inferred one (assumed)"] = true
			}
		}
		x.applyEffExact(st, eff)
		return
	}
	if callee == nil || callee.Blocks == nil {
		x.havocAll(st)
		return
	}
	eff := x.effectsOf(callee)
	if x.lockStateOn() && eff.Classes["g:held"] {
		// inferred through a callee's callee that swaps locks (resolveHook): the callee itself is
		// taken to leave the lock state as it found it, like every callee without a lock contract
		e2 := &Effects{Top: eff.Top, Locks: eff.Locks, Classes: map[string]bool{}}
		for c := range eff.Classes {
			if c != "g:held" {
				e2.Classes[c] = true
			}
		}
		x.assumed["lock typestate: callees leave every mutex in the state they found it (unless their contract says otherwise)"] = true
		eff = e2
	}
	x.applyEff(st, eff)
}

// resolveClass: "Type.field" of the contract's package -> heap class key; keys containing ':' are raw.
func resolveClass(u *FuncUnit, m string) string {
	if strings.Contains(m, ":") {
		return m
	}
	return "f:" + u.Pkg.Path + "." + m
}

// notHeldBeforeBirth: the set of mutexes this goroutine held when the function under
// verification was entered contains no mutex of an object that did not exist yet.
func (x *Exec) notHeldBeforeBirth(st *State, ref *Term) {
	if x.entry == nil {
		return
	}
	tb := x.tb
	hs := tb.Array(tb.BV(64), tb.Bool)
	h0 := x.heapGet(x.entry, "g:held", hs)
	x.assume(st, tb.Implies(tb.ULe(x.now(x.entry), x.birth(ref)), tb.Not(tb.Select(h0, ref))))
}

func subset(a, b map[string]bool) bool {
	for k := range a {
		if !b[k] && !isGhostClass(k) {
			return false
		}
	}
	return true
}

// applyEff applies inferred effects.  In lock-typestate mode a callee without a lock contract is
// taken to leave every mutex as it found it, also when a callee of its callees swaps locks.
func (x *Exec) applyEff(st *State, eff *Effects) {
	if x.lockStateOn() && eff.Classes["g:held"] {
		e2 := &Effects{Top: eff.Top, Locks: eff.Locks, Classes: map[string]bool{}}
		for c := range eff.Classes {
			if c != "g:held" {
				e2.Classes[c] = true
			}
		}
		x.assumed["lock typestate: callees leave every mutex in the state they found it (unless their contract says otherwise)"] = true
		eff = e2
	}
	x.applyEffExact(st, eff)
}

// applyEffExact applies effects as given (a contract's declared frame).
func (x *Exec) applyEffExact(st *State, eff *Effects) {
	if eff.Top {
		x.havocAllBut(st, eff.Classes)
		for c := range eff.Classes {
			if isGhostClass(c) {
				x.havocClassPrefix(st, c) // ghost state survives a general havoc unless listed
			}
		}
		if eff.Locks {
			if x.lockStateOn() {
				x.assumed["lock typestate: callees leave every mutex in the state they found it (unless their contract says otherwise)"] = true
			} else {
				x.havocLocks(st)
			}
		}
		return
	}
	for c := range eff.Classes {
		x.havocClassPrefix(st, c)
	}
	if eff.Locks {
		if x.lockStateOn() {
			x.assumed["lock typestate: callees leave every mutex in the state they found it (unless their contract says otherwise)"] = true
		} else {
			x.havocLocks(st)
		}
	}
}

func (x *Exec) havocLocks(st *State) {
	x.havocClass(st, "g:held", x.tb.Array(x.tb.BV(64), x.tb.Bool))
}

// havocClassPrefix havocs every known leaf class of the given class prefix and remembers the
// prefix so that leaves first touched later are fresh as well.
func (x *Exec) havocClassPrefix(st *State, prefix string) {
	if x.isImmutable(prefix) {
		x.assumed["field "+prefix+" is immutable after construction (option immutable)"] = true
		return
	}
	found := false
	for c, s := range x.classSort {
		if c == prefix || strings.HasPrefix(c, prefix+"#") || strings.HasPrefix(c, prefix+".") {
			x.havocClass(st, c, s)
			found = true
		}
	}
	if !found {
		// class never read so far in this unit: leaves of it first touched later must be fresh,
		// every other class keeps its value: partial-havoc epoch on top of the current one
		nw := x.now(st)
		e := x.newEpoch()
		e.parent = st.epoch
		e.havoc = []string{prefix}
		e.now = nw
		st.epoch = e
	}
}

// opaqueCall: callee without contract that cannot be inlined.
func (x *Exec) opaqueCall(fr *Frame, st *State, callee *ssa.Function, args []Val, resT types.Type, dynamic bool) Val {
	res := x.freshVal(resT, "opaque")
	x.assumeWF(st, resT, res.L)
	if fr.spec {
		return res
	}
	x.bumpNow(st)
	if dynamic || callee == nil {
		x.havocAllBut(st, nil)
		return res
	}
	if inModule(callee) && callee.Blocks != nil {
		eff := x.effectsOf(callee)
		x.applyEff(st, eff)
		return res
	}
	// out-of-module: may write the bytes of []byte arguments and objects reachable from pointer
	// arguments of out-of-module types; in-module struct fields are assumed untouched.
	for _, a := range args {
		if sl, ok := a.T.Underlying().(*types.Slice); ok {
			if _, isS := isStruct(sl.Elem()); !isS {
				for _, l := range x.leaves(sl.Elem()) {
					cls := elemClass(sl.Elem()) + l.Path
					h := x.heapGet(st, cls, x.locArraySort(2, l.Sort))
					x.heapSet(st, cls, x.tb.Store(h, a.L[0], x.tb.Fresh("opq_arr", x.tb.Array(x.tb.BV(64), l.Sort))))
				}
			}
		}
		if a.Ptr != nil && a.Ptr.Kind == PLocal {
			// local passed by address would have been marked Heap by go/ssa; nothing to do
		}
		if a.Ptr != nil && a.Ptr.Kind == PLoc {
			v := x.freshVal(a.Ptr.T, "opq_out")
			x.assumeWF(st, a.Ptr.T, v.L)
			x.storeLoc(st, a.Ptr.T, a.Ptr.Loc, v.L)
		}
		if a.Ptr != nil && a.Ptr.Kind == PObj && len(a.L) == 1 {
			if n, ok := a.Ptr.T.(*types.Named); ok && n.Obj().Pkg() != nil && strings.HasPrefix(n.Obj().Pkg().Path(), modulePath) {
				// pointer to an in-module struct handed to foreign code (e.g. encoding/binary.Read): havoc it
				v := x.freshVal(a.Ptr.T, "opq_obj")
				x.storeStructAt(st, a.Ptr.T, a.L[0], v.L)
			}
		}
	}
	x.assumed["out-of-module callees without contract ("+pkgOf(callee)+") do not write library state other than their arguments"] = true
	return res
}

func pkgOf(fn *ssa.Function) string {
	if fn.Pkg != nil {
		return fn.Pkg.Pkg.Path()
	}
	if fn.Object() != nil && fn.Object().Pkg() != nil {
		return fn.Object().Pkg().Path()
	}
	return "?"
}

// ---------- interface method calls

func (x *Exec) invoke(fr *Frame, st *State, ins ssa.Instruction, cc *ssa.CallCommon, args []Val, recv Val, resT types.Type) Val {
	// find assumed interface contract
	if n, ok := cc.Value.Type().(*types.Named); ok && n.Obj().Pkg() != nil {
		key := n.Obj().Pkg().Path() + "." + n.Obj().Name() + "." + cc.Method.Name()
		if u, ok := x.ld.Iface[key]; ok {
			x.assumed["interface contract: "+n.Obj().Name()+"."+cc.Method.Name()] = true
			if !fr.spec {
				x.addObl(fr, st, "nil", ins, "", x.tb.Not(x.tb.Eq(recv.L[0], x.tb.BVInt(0, 64))))
			}
			return x.callContract(fr, st, ins, u, nil, append([]Val{recv}, args...), resT)
		}
	}
	if !fr.spec {
		x.addObl(fr, st, "nil", ins, "", x.tb.Not(x.tb.Eq(recv.L[0], x.tb.BVInt(0, 64))))
	}
	// well-known pure interface methods
	if cc.Method.Name() == "Error" && cc.Signature().Params().Len() == 0 {
		r := x.freshVal(resT, "errstr")
		x.assumeWF(st, resT, r.L)
		x.assumed["error.Error() has no side effect on library state"] = true
		return r
	}
	x.note("interface call %s.%s without contract: heap havoc", cc.Value.Type(), cc.Method.Name())
	res := x.freshVal(resT, "inv_"+cc.Method.Name())
	x.assumeWF(st, resT, res.L)
	if !fr.spec {
		x.havocAll(st)
	}
	return res
}

// ---------- builtins

func (x *Exec) builtin(fr *Frame, st *State, ins ssa.Instruction, b *ssa.Builtin, args []Val, resT types.Type) Val {
	tb := x.tb
	z := tb.BVInt(0, 64)
	switch b.Name() {
	case "len":
		a := args[0]
		switch a.T.Underlying().(type) {
		case *types.Slice:
			return Val{T: resT, L: []*Term{a.L[2]}}
		case *types.Basic:
			return Val{T: resT, L: []*Term{a.L[2]}}
		case *types.Map:
			return Val{T: resT, L: []*Term{x.mapLen(st, a)}}
		case *types.Pointer:
			if p, ok := a.T.Underlying().(*types.Pointer); ok {
				if arr, ok := p.Elem().Underlying().(*types.Array); ok {
					return Val{T: resT, L: []*Term{tb.BVInt(arr.Len(), 64)}}
				}
			}
		case *types.Array:
			return Val{T: resT, L: []*Term{tb.BVInt(a.T.Underlying().(*types.Array).Len(), 64)}}
		}
		r := x.freshVal(resT, "len")
		x.assume(st, tb.SLe(z, r.L[0]))
		return r
	case "cap":
		a := args[0]
		if _, ok := a.T.Underlying().(*types.Slice); ok {
			return Val{T: resT, L: []*Term{a.L[3]}}
		}
		r := x.freshVal(resT, "cap")
		x.assume(st, tb.SLe(z, r.L[0]))
		return r
	case "copy":
		return x.copyBuiltin(fr, st, ins, args, resT)
	case "append":
		return x.appendBuiltin(fr, st, ins, args, resT)
	case "delete":
		x.mapDelete(st, args[0], args[1])
		return Val{T: resT}
	case "close", "print", "println":
		return Val{T: resT}
	case "recover":
		return x.zero(resT)
	case "min", "max":
		if len(args) == 2 {
			_, signed, ok := x.intSort(args[0].T)
			if ok {
				var lt *Term
				if signed {
					lt = tb.SLt(args[0].L[0], args[1].L[0])
				} else {
					lt = tb.ULt(args[0].L[0], args[1].L[0])
				}
				if b.Name() == "min" {
					return Val{T: resT, L: []*Term{tb.Ite(lt, args[0].L[0], args[1].L[0])}}
				}
				return Val{T: resT, L: []*Term{tb.Ite(lt, args[1].L[0], args[0].L[0])}}
			}
		}
	}
	x.note("builtin %s unsupported", b.Name())
	return x.freshVal(resT, "builtin")
}

func (x *Exec) copyBuiltin(fr *Frame, st *State, ins ssa.Instruction, args []Val, resT types.Type) Val {
	tb := x.tb
	dst, src := args[0], args[1]
	srcLen := src.L[2]
	n := tb.Ite(tb.SLt(dst.L[2], srcLen), dst.L[2], srcLen)
	sl, _ := dst.T.Underlying().(*types.Slice)
	if sl == nil {
		x.havocAll(st)
		return Val{T: resT, L: []*Term{n}}
	}
	et := sl.Elem()
	if _, ok := isStruct(et); ok {
		x.note("copy of struct slices: heap havoc")
		x.havocAll(st)
		return Val{T: resT, L: []*Term{n}}
	}
	_, srcIsStr := src.T.Underlying().(*types.Basic)
	z := tb.BVInt(0, 64)
	for _, l := range x.leaves(et) {
		cls := elemClass(et) + l.Path
		h := x.heapGet(st, cls, x.locArraySort(2, l.Sort))
		dA := tb.Select(h, dst.L[0])
		nA := tb.Fresh("cp", dA.Sort)
		k := tb.BoundVar("k", tb.BV(64))
		var srcElem *Term
		rel := tb.Add(tb.Sub(k, dst.L[1]), src.L[1])
		if srcIsStr {
			srcElem = x.strByte(src.L[0], rel)
		} else {
			srcElem = tb.Select(tb.Select(h, src.L[0]), rel)
		}
		in := tb.And(tb.SLe(dst.L[1], k), tb.SLt(k, tb.Add(dst.L[1], n)))
		x.assume(st, tb.Forall([]*Term{k}, tb.Eq(tb.Select(nA, k), tb.Ite(in, srcElem, tb.Select(dA, k)))))
		_ = z
		x.heapSet(st, cls, tb.Store(h, dst.L[0], nA))
	}
	return Val{T: resT, L: []*Term{n}}
}

func (x *Exec) appendBuiltin(fr *Frame, st *State, ins ssa.Instruction, args []Val, resT types.Type) Val {
	tb := x.tb
	s, t := args[0], args[1]
	sl := s.T.Underlying().(*types.Slice)
	et := sl.Elem()
	z := tb.BVInt(0, 64)
	_, tIsStr := t.T.Underlying().(*types.Basic)
	n := t.L[2]
	newLen := tb.Add(s.L[2], n)
	fits := tb.SLe(newLen, s.L[3])
	farr := x.freshRef(st, "app")
	fcap := tb.Fresh("appcap", tb.BV(64))
	x.assume(st, tb.And(tb.SLe(newLen, fcap), tb.SLe(fcap, tb.BVInt(1<<48, 64))))
	rArr := tb.Ite(fits, s.L[0], farr)
	rOff := tb.Ite(fits, s.L[1], z)
	rCap := tb.Ite(fits, s.L[3], fcap)
	// appending nothing to nil yields nil
	nothing := tb.Eq(n, z)
	rArr = tb.Ite(nothing, s.L[0], rArr)
	rOff = tb.Ite(nothing, s.L[1], rOff)
	rCap = tb.Ite(nothing, s.L[3], rCap)
	res := Val{T: resT, L: []*Term{rArr, rOff, newLen, rCap}}
	if _, ok := isStruct(et); ok {
		x.note("append of struct slices: contents not modelled")
		return res
	}
	for _, l := range x.leaves(et) {
		cls := elemClass(et) + l.Path
		h := x.heapGet(st, cls, x.locArraySort(2, l.Sort))
		sA := tb.Select(h, s.L[0])
		nA := tb.Fresh("ap", sA.Sort)
		k := tb.BoundVar("k", tb.BV(64))
		start := tb.Add(rOff, s.L[2])
		rel := tb.Add(tb.Sub(k, start), t.L[1])
		var srcElem *Term
		if tIsStr {
			srcElem = x.strByte(t.L[0], rel)
		} else {
			srcElem = tb.Select(tb.Select(h, t.L[0]), rel)
		}
		inNew := tb.And(tb.SLe(start, k), tb.SLt(k, tb.Add(start, n)))
		// old contents: in place -> unchanged; moved -> prefix copied to offset 0
		oldElem := tb.Ite(fits, tb.Select(sA, k), tb.Select(sA, tb.Add(s.L[1], k)))
		inOld := tb.Or(fits, tb.And(tb.SLe(z, k), tb.SLt(k, s.L[2])))
		x.assume(st, tb.Forall([]*Term{k}, tb.And(
			tb.Implies(inNew, tb.Eq(tb.Select(nA, k), srcElem)),
			tb.Implies(tb.And(tb.Not(inNew), inOld), tb.Eq(tb.Select(nA, k), oldElem)))))
		// appending a few elements (append(buf, 'a', 'b')): state the new elements outright as well,
		// so that reading them back needs no quantifier instantiation
		if n.Op == "bv" && n.Val.Sign() > 0 && n.Val.Int64() <= 8 && !tIsStr {
			for j := int64(0); j < n.Val.Int64(); j++ {
				idx := tb.Add(start, tb.BVInt(j, 64))
				se := tb.Select(tb.Select(h, t.L[0]), tb.Add(t.L[1], tb.BVInt(j, 64)))
				x.assume(st, tb.Eq(tb.Select(nA, idx), se))
			}
		}
		x.heapSet(st, cls, tb.Ite(nothing, h, tb.Store(h, rArr, nA)))
	}
	return res
}

// ---------- special functions (stdlib models and contract prelude)

func (x *Exec) special(fr *Frame, st *State, ins ssa.Instruction, callee *ssa.Function, name string, args []Val, resT types.Type) (Val, bool) {
	tb := x.tb
	z := tb.BVInt(0, 64)
	// contract prelude (per package): functions declared in the generated stub
	if callee.Pkg != nil && inModule(callee) && isSpecBody(callee) && len(args) == 1 && args[0].Clo != nil {
		clo := args[0].Clo
		switch {
		case strings.HasPrefix(callee.Name(), "atOld") && len(clo.Fn.Params) == 0:
			// atOldX(func() X { ... }): the value of the expression in the pre-state
			nf := x.newFrame(clo.Fn, fr)
			nf.spec = true
			nf.bindings = clo.Bindings
			sub := x.oldState(fr).clone()
			sub.reach = tb.True
			sub.pc = nil
			// references met while evaluating are allocated now (not necessarily in the pre-state)
			sub.heap["g:now"] = x.now(st)
			// variables captured by the closure live in boxes of the current state
			for c, h := range st.heap {
				if strings.HasPrefix(c, "b:") {
					sub.heap[c] = h
				}
			}
			ex, r := x.runFunc(nf, sub)
			if !ex.reach.IsTrue() {
				x.assume(st, ex.reach)
			}
			r.T = resT
			return r, true
		case strings.HasPrefix(callee.Name(), "forall") && len(clo.Fn.Params) == 1:
			// forallT(func(t *T) bool { ... }): quantification over all objects of type T
			if _, isPtr := clo.Fn.Params[0].Type().Underlying().(*types.Pointer); isPtr {
				r := tb.BoundVar("r", tb.BV(64))
				nf := x.newFrame(clo.Fn, fr)
				nf.spec = true
				nf.bindings = clo.Bindings
				nf.vals[clo.Fn.Params[0]] = x.ptrToObj(clo.Fn.Params[0].Type(), r)
				sub := st.clone()
				sub.reach = tb.True
				sub.pc = nil
				ex, body := x.runFunc(nf, sub)
				guard := tb.And(x.nonNil(r), x.allocAt(x.now(x.oldStateOr(fr, st)), r))
				x.assumeForall(st, r, guard, ex.reach, nil, nil)
				return Val{T: resT, L: []*Term{tb.Forall([]*Term{r}, tb.Implies(guard, body.L[0]))}}, true
			}
		}
	}
	if callee.Pkg != nil && inModule(callee) {
		switch callee.Name() {
		case "forall", "exists":
			if isSpecBody(callee) {
				return x.quantifier(fr, st, callee.Name() == "exists", args, resT), true
			}
		case "held":
			if isSpecBody(callee) {
				ref := x.lockRef(args[0])
				h := x.heapGet(st, "g:held", tb.Array(tb.BV(64), tb.Bool))
				return Val{T: resT, L: []*Term{tb.Select(h, ref)}}, true
			}
		case "ghost":
			if isSpecBody(callee) {
				nm := ""
				if c, ok := ssaConstString(fr, args[0]); ok {
					nm = c
				} else {
					x.fatal("ghost(name, obj): name must be a string literal")
				}
				ref := x.lockRef(args[1])
				h := x.heapGet(st, "g:"+nm, tb.Array(tb.BV(64), tb.BV(64)))
				return Val{T: resT, L: []*Term{tb.Select(h, ref)}}, true
			}
		case "nolocks":
			if isSpecBody(callee) {
				h := x.heapGet(st, "g:held", tb.Array(tb.BV(64), tb.Bool))
				return Val{T: resT, L: []*Term{tb.Eq(h, tb.ConstArray(tb.Array(tb.BV(64), tb.Bool), tb.False))}}, true
			}
		case "lockswap", "lockdrop":
			if isSpecBody(callee) {
				// two-state: the held set is the pre-state's with `from` released (and `to` acquired)
				hs := tb.Array(tb.BV(64), tb.Bool)
				h := x.heapGet(st, "g:held", hs)
				h0 := x.heapGet(x.oldState(fr), "g:held", hs)
				want := tb.Store(h0, x.lockRef(args[0]), tb.False)
				if callee.Name() == "lockswap" {
					want = tb.Store(want, x.lockRef(args[1]), tb.True)
				}
				return Val{T: resT, L: []*Term{tb.Eq(h, want)}}, true
			}
		case "onlyheld":
			if isSpecBody(callee) {
				ref := x.lockRef(args[0])
				h := x.heapGet(st, "g:held", tb.Array(tb.BV(64), tb.Bool))
				return Val{T: resT, L: []*Term{tb.Eq(h, tb.Store(tb.ConstArray(tb.Array(tb.BV(64), tb.Bool), tb.False), ref, tb.True))}}, true
			}
		case "atomicDrop":
			if isSpecBody(callee) {
				h := x.heapGet(st, "g:adrop", tb.Array(tb.BV(64), tb.BV(64)))
				return Val{T: resT, L: []*Term{tb.Select(h, tb.BVInt(0, 64))}}, true
			}
		case "arrID":
			if isSpecBody(callee) {
				return Val{T: resT, L: []*Term{args[0].L[0]}}, true
			}
		case "sameArr":
			if isSpecBody(callee) {
				return Val{T: resT, L: []*Term{tb.Eq(args[0].L[0], args[1].L[0])}}, true
			}
		case "sameSlice":
			if isSpecBody(callee) {
				a, b := args[0], args[1]
				return Val{T: resT, L: []*Term{tb.And(tb.Eq(a.L[0], b.L[0]), tb.Eq(a.L[1], b.L[1]), tb.Eq(a.L[2], b.L[2]))}}, true
			}
		case "oldbyte":
			if isSpecBody(callee) {
				s := args[0]
				old := x.oldState(fr)
				i64 := args[1].L[0]
				return Val{T: resT, L: []*Term{tb.Select(tb.Select(x.bytesHeap(old), s.L[0]), tb.Add(s.L[1], i64))}}, true
			}
		case "fresharr":
			if isSpecBody(callee) {
				old := x.oldState(fr)
				return Val{T: resT, L: []*Term{tb.And(x.nonNil(args[0].L[0]), tb.Not(x.allocAt(x.now(old), args[0].L[0])))}}, true
			}
		case "freshobj":
			if isSpecBody(callee) {
				old := x.oldState(fr)
				ref := x.lockRef(args[0])
				return Val{T: resT, L: []*Term{tb.And(x.nonNil(ref), tb.Not(x.allocAt(x.now(old), ref)))}}, true
			}
		case "bytesUnchanged", "bytesUnchangedExcept":
			if isSpecBody(callee) {
				old := x.oldState(fr)
				a := tb.BoundVar("a", tb.BV(64))
				k := tb.BoundVar("k", tb.BV(64))
				same := tb.Eq(tb.Select(tb.Select(x.bytesHeap(st), a), k), tb.Select(tb.Select(x.bytesHeap(old), a), k))
				cond := x.allocAt(x.now(old), a)
				if callee.Name() == "bytesUnchangedExcept" {
					s := args[0]
					lo := tb.Add(s.L[1], args[1].L[0])
					hi := tb.Add(s.L[1], args[2].L[0])
					cond = tb.And(cond, tb.Not(tb.And(tb.Eq(a, s.L[0]), tb.SLe(lo, k), tb.SLt(k, hi))))
				}
				return Val{T: resT, L: []*Term{tb.Forall([]*Term{a, k}, tb.Implies(cond, same))}}, true
			}
		}
	}
	switch name {
	case "(encoding/binary.littleEndian).Uint16", "(encoding/binary.littleEndian).Uint32", "(encoding/binary.littleEndian).Uint64":
		nb := map[string]int{"Uint16": 2, "Uint32": 4, "Uint64": 8}[callee.Name()]
		b := args[len(args)-1]
		x.addObl(fr, st, "bounds", ins, "", tb.SLe(tb.BVInt(int64(nb), 64), b.L[2]))
		h := tb.Select(x.bytesHeap(st), b.L[0])
		var v *Term
		for i := 0; i < nb; i++ {
			by := tb.Select(h, tb.Add(b.L[1], tb.BVInt(int64(i), 64)))
			if v == nil {
				v = by
			} else {
				v = tb.Concat(by, v)
			}
		}
		return Val{T: resT, L: []*Term{v}}, true
	case "(encoding/binary.littleEndian).PutUint16", "(encoding/binary.littleEndian).PutUint32", "(encoding/binary.littleEndian).PutUint64":
		nb := map[string]int{"PutUint16": 2, "PutUint32": 4, "PutUint64": 8}[callee.Name()]
		b := args[len(args)-2]
		v := args[len(args)-1].L[0]
		x.addObl(fr, st, "bounds", ins, "", tb.SLe(tb.BVInt(int64(nb), 64), b.L[2]))
		H := x.bytesHeap(st)
		h := tb.Select(H, b.L[0])
		for i := 0; i < nb; i++ {
			h = tb.Store(h, tb.Add(b.L[1], tb.BVInt(int64(i), 64)), tb.Extract(8*i+7, 8*i, v))
		}
		x.heapSet(st, bytesClass, tb.Store(H, b.L[0], h))
		return Val{T: resT}, true
	case "(*sync.Mutex).Lock", "(*sync.RWMutex).Lock", "(*sync.RWMutex).RLock":
		if x.noLockHavoc(fr.fn) && x.lockStateOn() {
			// typestate only: held/not held is tracked, the heap is not exposed to other goroutines
			ref := x.lockRef(args[0])
			x.notHeldBeforeBirth(st, ref)
			h := x.heapGet(st, "g:held", tb.Array(tb.BV(64), tb.Bool))
			x.addObl(fr, st, "lock", ins, "", tb.Not(tb.Select(h, ref)))
			x.heapSet(st, "g:held", tb.Store(h, ref, tb.True))
			return Val{T: resT}, true
		}
		if x.noLockHavoc(fr.fn) {
			x.assumed["locks of package "+pkgOf(fr.fn)+" are not modelled: no concurrent mutation of a Message while it is used (option nolockhavoc)"] = true
			return Val{T: resT}, true
		}
		ref := x.lockRef(args[0])
		x.notHeldBeforeBirth(st, ref)
		h := x.heapGet(st, "g:held", tb.Array(tb.BV(64), tb.Bool))
		x.addObl(fr, st, "lock", ins, "", tb.Not(tb.Select(h, ref)))
		// state protected by the mutex may have been changed by other goroutines
		if !x.noLockHavoc(fr.fn) {
			x.havocAll(st)
		} else {
			x.assumed["no concurrent mutation while a lock of package "+pkgOf(fr.fn)+" is not held (option nolockhavoc)"] = true
		}
		h = x.heapGet(st, "g:held", tb.Array(tb.BV(64), tb.Bool))
		x.heapSet(st, "g:held", tb.Store(h, ref, tb.True))
		return Val{T: resT}, true
	case "(*sync.Mutex).Unlock", "(*sync.RWMutex).Unlock", "(*sync.RWMutex).RUnlock":
		if x.noLockHavoc(fr.fn) && !x.lockStateOn() {
			return Val{T: resT}, true
		}
		ref := x.lockRef(args[0])
		x.notHeldBeforeBirth(st, ref)
		h := x.heapGet(st, "g:held", tb.Array(tb.BV(64), tb.Bool))
		x.addObl(fr, st, "lock", ins, "", tb.Select(h, ref))
		x.heapSet(st, "g:held", tb.Store(h, ref, tb.False))
		return Val{T: resT}, true
	case "(*sync.Mutex).TryLock":
		ref := x.lockRef(args[0])
		h := x.heapGet(st, "g:held", tb.Array(tb.BV(64), tb.Bool))
		ok := tb.Fresh("trylock", tb.Bool)
		x.assume(st, tb.Implies(tb.Select(h, ref), tb.Not(ok)))
		x.heapSet(st, "g:held", tb.Store(h, ref, tb.Or(tb.Select(h, ref), ok)))
		return Val{T: resT, L: []*Term{ok}}, true
	case "(*sync.Once).Do":
		// f runs at most once, now or earlier: nondeterministic guarded execution
		if args[1].Clo != nil && !fr.spec {
			g := tb.Fresh("once", tb.Bool)
			on := st.clone()
			x.branch(on, g)
			off := st.clone()
			x.branch(off, tb.Not(g))
			x.callStatic(fr, on, ins, args[1].Clo.Fn, nil, args[1].Clo.Bindings, types.NewTuple())
			m := x.mergeStates([]*State{on, off})
			*st = *m
			return Val{T: resT}, true
		}
		x.havocAll(st)
		return Val{T: resT}, true
	case "sync/atomic.LoadUint64", "sync/atomic.LoadUint32", "sync/atomic.LoadInt64", "sync/atomic.LoadInt32":
		// shared location: every atomic read returns a fresh value
		r := x.freshVal(resT, "atomic_load")
		return r, true
	case "sync/atomic.StoreUint64", "sync/atomic.StoreUint32", "sync/atomic.StoreInt64", "sync/atomic.StoreInt32":
		x.store(fr, st, args[0], args[1], ins)
		return Val{T: resT}, true
	case "sync/atomic.AddUint64", "sync/atomic.AddUint32", "sync/atomic.AddInt64", "sync/atomic.AddInt32":
		cur := x.freshVal(args[1].T, "atomic_cur")
		nv := Val{T: args[1].T, L: []*Term{tb.Add(cur.L[0], args[1].L[0])}}
		x.store(fr, st, args[0], nv, ins)
		x.ghostAtomic(fr, st, ins, "add", cur.L[0], nv.L[0])
		return nv, true
	case "sync/atomic.CompareAndSwapUint64", "sync/atomic.CompareAndSwapUint32", "sync/atomic.CompareAndSwapInt64", "sync/atomic.CompareAndSwapInt32":
		// succeeds iff the location holds `old` at this instant; then writes `new`
		ok := tb.Fresh("cas_ok", tb.Bool)
		on := st.clone()
		x.branch(on, ok)
		x.store(fr, on, args[0], args[2], ins)
		x.ghostAtomic(fr, on, ins, "cas", args[1].L[0], args[2].L[0])
		off := st.clone()
		x.branch(off, tb.Not(ok))
		m := x.mergeStates([]*State{on, off})
		*st = *m
		return Val{T: resT, L: []*Term{ok}}, true
	case "bytes.Equal":
		a, b := args[0], args[1]
		k := tb.BoundVar("k", tb.BV(64))
		H := x.bytesHeap(st)
		body := tb.Eq(tb.Select(tb.Select(H, a.L[0]), tb.Add(a.L[1], k)), tb.Select(tb.Select(H, b.L[0]), tb.Add(b.L[1], k)))
		bv, rng, nb := tb.reindex(k, z, a.L[2], body)
		all := tb.Forall([]*Term{bv}, tb.Implies(rng, nb))
		return Val{T: resT, L: []*Term{tb.And(tb.Eq(a.L[2], b.L[2]), all)}}, true
	case "math.Float32bits", "math.Float64bits", "math.Float32frombits", "math.Float64frombits":
		return Val{T: resT, L: []*Term{args[0].L[0]}}, true
	case "errors.New", "fmt.Errorf":
		r := x.freshVal(resT, "err")
		x.assume(st, tb.Not(tb.Eq(r.L[0], z)))
		return r, true
	case "fmt.Sprintf", "fmt.Sprint", "fmt.Sprintln", "strconv.Itoa", "strconv.Quote", "strconv.FormatInt", "strconv.FormatUint":
		r := x.freshVal(resT, "str")
		x.assumeWF(st, resT, r.L)
		return r, true
	case "(*sync.WaitGroup).Add", "(*sync.WaitGroup).Done", "(*sync.WaitGroup).Wait", "(*sync.Cond).Broadcast", "(*sync.Cond).Signal", "runtime.Gosched", "runtime.SetFinalizer", "runtime.KeepAlive":
		return Val{T: resT}, true
	}
	return Val{}, false
}

// ghostAtomic records the transition of a shared location for cas-step contracts.
func (x *Exec) ghostAtomic(fr *Frame, st *State, ins ssa.Instruction, kind string, old, nw *Term) {
	// transitions are recorded in frame-independent ghost list on the exec
	x.atomicSteps = append(x.atomicSteps, atomicStep{kind: kind, old: old, nw: nw, reach: st.reach, fr: fr, ins: ins})
	tb := x.tb
	o64, n64 := tb.ZExt(old, 64), tb.ZExt(nw, 64)
	// every read-modify-write must satisfy the unit's atomic-step predicates
	if x.unit != nil && x.top != nil && !fr.spec {
		var args []Val
		args = append(args, x.top.args...)
		args = append(args, x.top.oldVals...)
		u64 := types.Typ[types.Uint64]
		args = append(args, Val{T: u64, L: []*Term{o64}}, Val{T: u64, L: []*Term{n64}})
		for k, fn := range x.unit.Steps {
			if fn == nil {
				continue
			}
			res := x.runSpec2(fn, st, x.entry, args)
			lbl := fmt.Sprintf("step%d", k)
			if x.unit.C.Steps[k].Label != "" {
				lbl = x.unit.C.Steps[k].Label
			}
			save := x.curProps
			if len(x.unit.C.Steps[k].Props) > 0 {
				x.curProps = x.unit.C.Steps[k].Props
			}
			x.addObl(fr, st, "atomic", ins, lbl, res.L[0])
			x.curProps = save
		}
	}
	// ghost: total decrease so far
	h := x.heapGet(st, "g:adrop", tb.Array(tb.BV(64), tb.BV(64)))
	z := tb.BVInt(0, 64)
	x.heapSet(st, "g:adrop", tb.Store(h, z, tb.Add(tb.Select(h, z), tb.Sub(o64, n64))))
}

type atomicStep struct {
	kind    string
	old, nw *Term
	reach   *Term
	fr      *Frame
	ins     ssa.Instruction
}

func (x *Exec) lockRef(v Val) *Term {
	// v is either *sync.Mutex (PObj ref) or an interface{} holding it
	if _, ok := v.T.Underlying().(*types.Interface); ok {
		return v.L[1]
	}
	return v.L[0]
}

// oldStateOr: the pre-state of the enclosing contract, or st itself where there is none (a
// precondition is evaluated in the pre-state).
func (x *Exec) oldStateOr(fr *Frame, st *State) *State {
	for f := fr; f != nil; f = f.parent {
		if f.oldState != nil {
			return f.oldState
		}
	}
	if x.entry != nil {
		return x.entry
	}
	return st
}

func (x *Exec) oldState(fr *Frame) *State {
	for f := fr; f != nil; f = f.parent {
		if f.oldState != nil {
			return f.oldState
		}
	}
	if x.entry != nil {
		return x.entry
	}
	panic("two-state predicate outside a postcondition")
}

// assumeForall: fact was collected while evaluating a quantifier body for an arbitrary value of the
// bound variable satisfying guard (outside the guard the body may not be total: a nil
// dereference or an index out of range leaves the evaluation, so nothing is known there).
// Conjuncts that do not mention bound variables hold as they are.
func (x *Exec) assumeForall(st *State, bound *Term, guard *Term, fact *Term, lo, hi *Term) {
	if fact.IsTrue() {
		return
	}
	if fact.Op == "and" {
		for _, a := range fact.Args {
			x.assumeForall(st, bound, guard, a, lo, hi)
		}
		return
	}
	if !fact.open {
		x.assume(st, fact)
		return
	}
	if lo != nil {
		bv, rng, b := x.tb.reindex(bound, lo, hi, fact)
		x.assume(st, x.tb.Forall([]*Term{bv}, x.tb.Implies(rng, b)))
		return
	}
	x.assume(st, x.tb.Forall([]*Term{bound}, x.tb.Implies(guard, fact)))
}

func (x *Exec) quantifier(fr *Frame, st *State, exists bool, args []Val, resT types.Type) Val {
	tb := x.tb
	clo := args[2].Clo
	if clo == nil {
		x.note("forall with unknown closure")
		return x.freshVal(resT, "q")
	}
	k := tb.BoundVar("i", tb.BV(64))
	nf := x.newFrame(clo.Fn, fr)
	nf.spec = true
	nf.bindings = clo.Bindings
	nf.vals[clo.Fn.Params[0]] = Val{T: clo.Fn.Params[0].Type(), L: []*Term{k}}
	sub := st.clone()
	sub.reach = tb.True
	sub.pc = nil
	ex, body := x.runFunc(nf, sub)
	// facts collected while evaluating the (total) body hold for every value of the bound variable
	{
		lo, hi := args[0].L[0], args[1].L[0]
		x.assumeForall(st, k, tb.And(tb.SLe(lo, k), tb.SLt(k, hi)), ex.reach, lo, hi)
	}
	// quantify over the absolute element index when the body reads slice elements at off+k, so
	// that the plain element read is the instantiation pattern
	bv, rng, b := tb.reindex(k, args[0].L[0], args[1].L[0], body.L[0])
	if exists {
		return Val{T: resT, L: []*Term{tb.Not(tb.Forall([]*Term{bv}, tb.Not(tb.And(rng, b))))}}
	}
	return Val{T: resT, L: []*Term{tb.Forall([]*Term{bv}, tb.Implies(rng, b))}}
}

// runSpec evaluates a stub function (contract clauses) in state st; no obligations, no state change.
func (x *Exec) runSpec(fn *ssa.Function, st *State, args []Val, old *State) Val {
	return x.runSpec2(fn, st, old, args)
}

func (x *Exec) runSpec2(fn *ssa.Function, st *State, old *State, args []Val) Val {
	nf := x.newFrame(fn, nil)
	nf.spec = true
	nf.oldState = old
	for i, p := range fn.Params {
		if i < len(args) {
			a := args[i]
			if len(a.L) != x.nleaves(p.Type()) {
				panic(fmt.Sprintf("spec arg %d of %s: leaf count mismatch %d vs %d (%s vs %s)", i, fn.Name(), len(a.L), x.nleaves(p.Type()), a.T, p.Type()))
			}
			a.T = p.Type()
			nf.vals[p] = a
		} else {
			panic(fmt.Sprintf("spec function %s: missing argument %d", fn.Name(), i))
		}
	}
	sub := st.clone()
	sub.reach = x.tb.True
	sub.pc = nil
	ex, res := x.runFunc(nf, sub)
	// Facts collected while evaluating the (total) spec function - well-formedness of loaded
	// values, freshness of objects the stub allocates - are true by construction; the clause
	// values are only meaningful together with them.
	x.assume(st, ex.reach)
	return res
}

// ssaConstString recovers the literal behind a string value built by stringConst.
func ssaConstString(fr *Frame, v Val) (string, bool) {
	if v.Str != nil {
		return *v.Str, true
	}
	return "", false
}

func (x *Exec) lockStateOn() bool { return x.unit != nil && x.unit.C.LockState }

func (x *Exec) noLockHavoc(fn *ssa.Function) bool {
	for fn.Parent() != nil {
		fn = fn.Parent()
	}
	if fn.Pkg == nil {
		return false
	}
	lp := x.ld.Pkgs[fn.Pkg.Pkg.Path()]
	return lp != nil && lp.CF != nil && lp.CF.Options["nolockhavoc"]
}
