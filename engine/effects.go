package main

// Frame inference: which heap classes a function may write (class granularity), computed from
// the SSA of the function and everything it can reach through static calls.

import (
	"go/types"
	"strings"

	"golang.org/x/tools/go/ssa"
)

type Effects struct {
	Top     bool
	Locks   bool
	Classes map[string]bool // class prefixes
}

func (e *Effects) add(o *Effects) {
	if o.Top {
		e.Top = true
	}
	if o.Locks {
		e.Locks = true
	}
	for c := range o.Classes {
		e.Classes[c] = true
	}
}

func (x *Exec) effectsOf(fn *ssa.Function) *Effects {
	if e, ok := x.effCache[fn]; ok {
		return e
	}
	e := &Effects{Classes: map[string]bool{}}
	visited := map[*ssa.Function]bool{}
	x.fnEffects(fn, e, visited)
	x.effCache[fn] = e
	return e
}

func (x *Exec) fnEffects(fn *ssa.Function, e *Effects, visited map[*ssa.Function]bool) {
	if visited[fn] {
		return
	}
	visited[fn] = true
	if u, ok := x.ld.ByFn[fn]; ok && u.C.HasMod {
		for _, m := range u.C.Modifies {
			if m == "*" {
				e.Top = true
			} else {
				e.Classes[resolveClass(u, m)] = true
			}
		}
		return
	}
	if fn.Blocks == nil {
		if !inModule(fn) {
			return // foreign code: handled per call site from its arguments
		}
		e.Top = true
		return
	}
	saved := x.curEffFn
	x.curEffFn = fn
	defer func() { x.curEffFn = saved }()
	for _, b := range fn.Blocks {
		for _, ins := range b.Instrs {
			x.instrEffects(ins, e, visited)
			if e.Top && e.Locks {
				return
			}
		}
	}
	for _, an := range fn.AnonFuncs {
		_ = an // closures are accounted for when called or passed to a known higher-order function
	}
}

func structFieldClasses(t types.Type, out map[string]bool) {
	st, ok := t.Underlying().(*types.Struct)
	if !ok {
		return
	}
	for i := 0; i < st.NumFields(); i++ {
		ft := st.Field(i).Type()
		if _, ok := ft.Underlying().(*types.Struct); ok {
			structFieldClasses(ft, out)
		} else if arr, ok := ft.Underlying().(*types.Array); ok {
			out[elemClass(arr.Elem())] = true
		} else {
			out[structClass(t, i)] = true
		}
	}
}

func typeClasses(prefixT types.Type, out map[string]bool) {
	if _, ok := prefixT.Underlying().(*types.Struct); ok {
		structFieldClasses(prefixT, out)
		return
	}
	if arr, ok := prefixT.Underlying().(*types.Array); ok {
		typeClasses(arr.Elem(), out)
		return
	}
	out[elemClass(prefixT)] = true
}

// addrClasses: classes possibly written by a store through addr.
func (x *Exec) addrClasses(addr ssa.Value, e *Effects) {
	switch a := addr.(type) {
	case *ssa.Alloc:
		return // fresh object or local cell
	case *ssa.FieldAddr:
		if r := allocRoot(a); r != nil {
			if _, isArr := r.Type().(*types.Pointer).Elem().Underlying().(*types.Array); !isArr {
				return
			}
		}
		pt, ok := a.X.Type().Underlying().(*types.Pointer)
		if !ok {
			e.Top = true
			return
		}
		st, ok := pt.Elem().Underlying().(*types.Struct)
		if !ok {
			e.Top = true
			return
		}
		ft := st.Field(a.Field).Type()
		if _, ok := ft.Underlying().(*types.Struct); ok {
			structFieldClasses(ft, e.Classes)
		} else if arr, ok := ft.Underlying().(*types.Array); ok {
			typeClasses(arr.Elem(), e.Classes)
		} else {
			e.Classes[structClass(pt.Elem(), a.Field)] = true
		}
	case *ssa.IndexAddr:
		switch bt := a.X.Type().Underlying().(type) {
		case *types.Slice:
			typeClasses(bt.Elem(), e.Classes)
		case *types.Pointer:
			if arr, ok := bt.Elem().Underlying().(*types.Array); ok {
				typeClasses(arr.Elem(), e.Classes)
			} else {
				e.Top = true
			}
		default:
			e.Top = true
		}
	case *ssa.Global:
		pt := a.Type().(*types.Pointer).Elem()
		if _, ok := pt.Underlying().(*types.Struct); ok {
			structFieldClasses(pt, e.Classes)
		} else {
			e.Classes["v:"+a.String()] = true
		}
	default:
		// pointer value from elsewhere: a pointer to a struct writes that struct's classes
		if pt, ok := addr.Type().Underlying().(*types.Pointer); ok {
			if _, ok := pt.Elem().Underlying().(*types.Struct); ok {
				structFieldClasses(pt.Elem(), e.Classes)
				return
			}
			e.Classes["b:"+typeKey(pt.Elem())] = true
			// may also point into a struct field or slice element of that type: be conservative
			e.Top = true
			return
		}
		e.Top = true
	}
}

func (x *Exec) instrEffects(ins ssa.Instruction, e *Effects, visited map[*ssa.Function]bool) {
	switch i := ins.(type) {
	case *ssa.Store:
		x.addrClasses(i.Addr, e)
	case *ssa.MapUpdate:
		e.Classes[mapClass(i.Map.Type())] = true
	case *ssa.Call:
		x.callEffects(&i.Call, e, visited)
	case *ssa.Defer:
		x.callEffects(&i.Call, e, visited)
	case *ssa.Go:
		// concurrent; abstracted
	case *ssa.Send, *ssa.Select:
	}
}

func (x *Exec) callEffects(cc *ssa.CallCommon, e *Effects, visited map[*ssa.Function]bool) {
	if cc.IsInvoke() {
		if n, ok := cc.Value.Type().(*types.Named); ok && n.Obj().Pkg() != nil {
			key := n.Obj().Pkg().Path() + "." + n.Obj().Name() + "." + cc.Method.Name()
			if u, ok := x.ld.Iface[key]; ok && u.C.HasMod {
				for _, m := range u.C.Modifies {
					if m == "*" {
						e.Top = true
					} else {
						e.Classes[resolveClass(u, m)] = true
					}
				}
				return
			}
		}
		if cc.Method.Name() == "Error" && cc.Signature().Params().Len() == 0 {
			return
		}
		e.Top = true
		return
	}
	switch f := cc.Value.(type) {
	case *ssa.Builtin:
		switch f.Name() {
		case "copy", "append":
			if sl, ok := cc.Args[0].Type().Underlying().(*types.Slice); ok {
				typeClasses(sl.Elem(), e.Classes)
			}
		case "delete":
			e.Classes[mapClass(cc.Args[0].Type())] = true
		}
		return
	case *ssa.Function:
		x.staticCallEffects(f, cc, e, visited)
		return
	case *ssa.MakeClosure:
		x.staticCallEffects(f.Fn.(*ssa.Function), cc, e, visited)
		return
	}
	e.Top = true
}

func (x *Exec) staticCallEffects(f *ssa.Function, cc *ssa.CallCommon, e *Effects, visited map[*ssa.Function]bool) {
	name := f.String()
	switch {
	case strings.HasPrefix(name, "(*sync.Mutex)."), strings.HasPrefix(name, "(*sync.RWMutex)."):
		if x.curEffFn != nil && x.noLockHavoc(x.curEffFn) {
			if x.lockStateOn() {
				e.Locks = true
			}
			return
		}
		e.Locks = true
		if strings.HasSuffix(name, "Lock") && !strings.HasSuffix(name, "Unlock") && !(x.curEffFn != nil && x.noLockHavoc(x.curEffFn)) {
			e.Top = true // acquiring a lock exposes changes by other goroutines
		}
		return
	case strings.HasPrefix(name, "sync/atomic.Store"), strings.HasPrefix(name, "sync/atomic.Add"), strings.HasPrefix(name, "sync/atomic.CompareAndSwap"), strings.HasPrefix(name, "sync/atomic.Swap"):
		x.addrClasses(cc.Args[0], e)
		return
	case strings.HasPrefix(name, "sync/atomic.Load"):
		return
	case strings.HasPrefix(name, "(encoding/binary.littleEndian).Put"):
		e.Classes[bytesClass] = true
		return
	case strings.HasPrefix(name, "(encoding/binary.littleEndian).Uint"), strings.HasPrefix(name, "math."),
		strings.HasPrefix(name, "strconv."), strings.HasPrefix(name, "strings."), name == "bytes.Equal",
		name == "errors.New", name == "fmt.Sprintf", name == "fmt.Errorf", name == "fmt.Sprint",
		strings.HasPrefix(name, "unicode/utf8."), strings.HasPrefix(name, "math/bits."):
		return // known not to write through their arguments
	case name == "(*sync.Once).Do":
		if mc, ok := cc.Args[1].(*ssa.MakeClosure); ok {
			x.fnEffects(mc.Fn.(*ssa.Function), e, visited)
			return
		}
		if fn, ok := cc.Args[1].(*ssa.Function); ok {
			x.fnEffects(fn, e, visited)
			return
		}
		e.Top = true
		return
	}
	if f.Blocks != nil && inModule(f) {
		x.fnEffects(f, e, visited)
		return
	}
	if inModule(f) {
		e.Top = true
		return
	}
	// assumed contract (with a frame) for calls from the package being analysed
	if x.curEffFn != nil {
		root := x.curEffFn
		for root.Parent() != nil {
			root = root.Parent()
		}
		if root.Pkg != nil {
			if lp := x.ld.Pkgs[root.Pkg.Pkg.Path()]; lp != nil && lp.Extern != nil {
				if u, ok := lp.Extern[f]; ok && u.C.HasMod {
					for _, m := range u.C.Modifies {
						if m == "*" {
							e.Top = true
						} else {
							e.Classes[resolveClass(u, m)] = true
						}
					}
					return
				}
			}
		}
	}
	// foreign function: may write through slice / pointer arguments
	for _, a := range cc.Args {
		switch t := a.Type().Underlying().(type) {
		case *types.Slice:
			typeClasses(t.Elem(), e.Classes)
		case *types.Pointer:
			if n, ok := t.Elem().(*types.Named); ok && n.Obj().Pkg() != nil && strings.HasPrefix(n.Obj().Pkg().Path(), modulePath) {
				structFieldClasses(t.Elem(), e.Classes)
			}
		case *types.Signature:
			// callback into library code
			if mc, ok := a.(*ssa.MakeClosure); ok {
				x.fnEffects(mc.Fn.(*ssa.Function), e, visited)
			} else if fn, ok := a.(*ssa.Function); ok {
				x.fnEffects(fn, e, visited)
			} else {
				e.Top = true
			}
		case *types.Interface:
			// foreign code may call methods of the value (io.Reader etc.): unknown library effects
			if !isErrorOrStringer(t) && t.NumMethods() > 0 {
				e.Top = true
			}
		}
	}
}

func isErrorOrStringer(t *types.Interface) bool {
	if t.NumMethods() != 1 {
		return false
	}
	n := t.Method(0).Name()
	return n == "Error" || n == "String"
}
