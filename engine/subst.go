package main

import "math/big"

// Substitution over the term DAG and re-indexing of quantifiers over slice elements.

// Apply rebuilds a node with new arguments through the simplifying constructors.
func (tb *TB) Apply(t *Term, args []*Term) *Term {
	switch t.Op {
	case "not":
		return tb.Not(args[0])
	case "and":
		return tb.And(args...)
	case "or":
		return tb.Or(args...)
	case "=>":
		return tb.Implies(args[0], args[1])
	case "=":
		return tb.Eq(args[0], args[1])
	case "ite":
		return tb.Ite(args[0], args[1], args[2])
	case "bvadd", "bvsub", "bvmul", "bvand", "bvor", "bvxor", "bvshl", "bvlshr", "bvashr", "bvudiv", "bvurem", "bvsdiv", "bvsrem":
		return tb.bin(t.Op, args[0], args[1])
	case "bvult", "bvule", "bvslt", "bvsle":
		return tb.cmp(t.Op, args[0], args[1])
	case "bvnot":
		return tb.BNot(args[0])
	case "bvneg":
		return tb.Neg(args[0])
	case "extract":
		return tb.Extract(t.P1, t.P2, args[0])
	case "zext":
		return tb.ZExt(args[0], t.Sort.W)
	case "sext":
		return tb.SExt(args[0], t.Sort.W)
	case "concat":
		return tb.Concat(args[0], args[1])
	case "select":
		return tb.Select(args[0], args[1])
	case "store":
		return tb.Store(args[0], args[1], args[2])
	case "constarr":
		return tb.ConstArray(t.Sort, args[0])
	case "forall":
		return tb.Forall(t.Bound, args[0])
	}
	if len(t.Op) > 3 && t.Op[:3] == "uf:" {
		return tb.mk(&Term{Op: t.Op, Args: args, Sort: t.Sort, Name: t.Name})
	}
	n := *t
	n.Args = args
	n.ID = 0
	n.key = ""
	n.hasBnd = false
	n.open = false
	return tb.mk(&n)
}

// Subst replaces every occurrence of `from` in t by `to`.
func (tb *TB) Subst(t, from, to *Term) *Term {
	memo := map[int]*Term{}
	var rec func(t *Term) *Term
	rec = func(t *Term) *Term {
		if t == from {
			return to
		}
		if !t.hasBnd && !from.IsConst() && from.Op != "bound" {
			// fast path is not possible in general; fall through
		}
		if from.Op == "bound" && !t.hasBnd {
			return t
		}
		if r, ok := memo[t.ID]; ok {
			return r
		}
		if len(t.Args) == 0 {
			memo[t.ID] = t
			return t
		}
		changed := false
		args := make([]*Term, len(t.Args))
		for i, a := range t.Args {
			args[i] = rec(a)
			if args[i] != a {
				changed = true
			}
		}
		r := t
		if changed {
			r = tb.Apply(t, args)
		}
		memo[t.ID] = r
		return r
	}
	return rec(t)
}

// DropQuant weakens (pol=true) or strengthens (pol=false) a formula by replacing every
// quantified subformula with true / false according to its polarity.
func (tb *TB) DropQuant(t *Term, pol bool) *Term {
	if !t.hasBnd {
		return t
	}
	give := func() *Term {
		if pol {
			return tb.True
		}
		return tb.False
	}
	switch t.Op {
	case "forall":
		return give()
	case "not":
		return tb.Not(tb.DropQuant(t.Args[0], !pol))
	case "and":
		as := make([]*Term, len(t.Args))
		for i, a := range t.Args {
			as[i] = tb.DropQuant(a, pol)
		}
		return tb.And(as...)
	case "or":
		as := make([]*Term, len(t.Args))
		for i, a := range t.Args {
			as[i] = tb.DropQuant(a, pol)
		}
		return tb.Or(as...)
	case "=>":
		return tb.Implies(tb.DropQuant(t.Args[0], !pol), tb.DropQuant(t.Args[1], pol))
	case "ite":
		if t.Sort.Kind == SBool && !t.Args[0].hasBnd {
			return tb.Ite(t.Args[0], tb.DropQuant(t.Args[1], pol), tb.DropQuant(t.Args[2], pol))
		}
	}
	if t.Sort.Kind == SBool {
		return give()
	}
	return t
}

// contains reports whether sub occurs in t.
func contains(t, sub *Term) bool {
	if sub.Op == "bound" && !t.hasBnd {
		return false
	}
	seen := map[int]bool{}
	var rec func(t *Term) bool
	rec = func(t *Term) bool {
		if t == sub {
			return true
		}
		if seen[t.ID] {
			return false
		}
		seen[t.ID] = true
		for _, a := range t.Args {
			if rec(a) {
				return true
			}
		}
		return false
	}
	return rec(t)
}

// reindex: for a quantifier `forall k. lo <= k < hi => body` whose body reads slice elements at
// index C+k, return an equivalent quantifier over the absolute index a = C+k, so that the
// instantiation pattern is the plain element read (select row a).
func (tb *TB) reindex(k, lo, hi, body *Term) (*Term, *Term, *Term) {
	// find a select whose index is C + k
	var C *Term
	seen := map[int]bool{}
	var find func(t *Term)
	find = func(t *Term) {
		if C != nil || seen[t.ID] || !t.hasBnd {
			return
		}
		seen[t.ID] = true
		if t.Op == "select" {
			idx := t.Args[1]
			if idx.Op == "bvadd" {
				if idx.Args[0] == k && !contains(idx.Args[1], k) {
					C = idx.Args[1]
				} else if idx.Args[1] == k && !contains(idx.Args[0], k) {
					C = idx.Args[0]
				}
			}
		}
		for _, a := range t.Args {
			find(a)
		}
	}
	find(body)
	if C == nil {
		// full range of a narrower unsigned type (forall(0, 1<<32, ...) with the variable
		// converted to a 32-bit key): quantify over the narrow variable, so that the key itself is
		// the instantiation pattern
		if lo.Op == "bv" && lo.Val.Sign() == 0 && hi.Op == "bv" && k.Sort.W == 64 {
			for _, w := range []int{8, 16, 32} {
				if hi.Val.Cmp(new(big.Int).Lsh(big.NewInt(1), uint(w))) == 0 {
					j := tb.BoundVar("n", tb.BV(w))
					nb := tb.Subst(body, k, tb.ZExt(j, 64))
					return j, tb.True, nb
				}
			}
		}
		return k, tb.And(tb.SLe(lo, k), tb.SLt(k, hi)), body
	}
	a := tb.BoundVar("a", k.Sort)
	rel := tb.Sub(a, C)
	nb := tb.Subst(body, k, rel)
	rng := tb.And(tb.SLe(lo, rel), tb.SLt(rel, hi))
	// Where offset and bounds are small (always, for slices: 2^48), the range is the plain
	// interval [C+lo, C+hi) of the absolute index: no subtraction from the bound variable, which
	// solvers find much easier.  Both forms are equivalent when nothing overflows; the guard
	// keeps the formula exact otherwise.
	lim := tb.BVInt(1<<62, 64)
	nlim := tb.BVInt(-(1 << 62), 64)
	small := tb.And(tb.SLe(tb.BVInt(0, 64), C), tb.SLe(C, lim), tb.SLe(nlim, lo), tb.SLe(lo, lim), tb.SLe(nlim, hi), tb.SLe(hi, lim))
	plain := tb.And(tb.SLe(tb.Add(C, lo), a), tb.SLt(a, tb.Add(C, hi)))
	rng = tb.Ite(small, plain, rng)
	return a, rng, nb
}
