package main

import (
	"path/filepath"
	"go/token"
	"context"
	"fmt"
	"regexp"
	"go/types"
	"os"
	"runtime/debug"
	"sort"
	"strings"
	"sync"
	"time"

	"golang.org/x/tools/go/ssa"
)

type UnitResult struct {
	Unit     string
	Pkg      string
	Obls     []*Obligation
	Notes    []string
	Assumed  []string
	Err      string // engine error (unit could not be processed)
	Trusted  bool
	GenTime  float64
	Lemma    bool
	Inlined  bool
	LoopDrift   []string
	AssertDrift []string
	Dropped     []string
}

func (x *Exec) propsOf(c Clause, u *FuncUnit) []string {
	if len(c.Props) > 0 {
		return c.Props
	}
	return u.C.Props
}

// VerifyUnit generates all obligations of one function under contract.
func VerifyUnit(ld *Loaded, u *FuncUnit, cfg *Config) (res *UnitResult) {
	t0 := time.Now()
	res = &UnitResult{Unit: u.Pkg.Name + "." + u.Key, Pkg: u.Pkg.Path, LoopDrift: u.LoopDrift, AssertDrift: u.AssertDrift, Dropped: u.Dropped}
	if u.C.Trusted || u.IfaceT != nil || u.C.Extern {
		res.Trusted = true
		return res
	}
	if u.C.Inline || u.Drifted {
		// (a drifted unit is reported undecided by the drift list; it is not verified)
		res.Inlined = true
		return res
	}
	x := NewExec(ld, cfg)
	x.unit = u
	x.curProps = u.C.Props
	defer func() {
		if r := recover(); r != nil {
			if ee, ok := r.(engineError); ok {
				res.Err = string(ee)
			} else {
				res.Err = fmt.Sprintf("engine panic: %v\n%s", r, debug.Stack())
			}
		}
		res.GenTime = time.Since(t0).Seconds()
		for _, k := range sortedKeys(x.notes) {
			res.Notes = append(res.Notes, fmt.Sprintf("%s (x%d)", k, x.notes[k]))
		}
		for k := range x.assumed {
			res.Assumed = append(res.Assumed, k)
		}
		sort.Strings(res.Assumed)
	}()
	fn := u.Fn
	tb := x.tb
	fr := x.newFrame(fn, nil)
	fr.unit = u
	x.top = fr
	st := &State{reach: tb.True, heap: map[string]*Term{}, epoch: x.newEpoch(), cells: map[cellKey][]*Term{}}
	x.epoch0 = st.epoch
	var args []Val
	for _, p := range fn.Params {
		v := x.freshVal(p.Type(), "p_"+p.Name())
		x.assumeWF(st, p.Type(), v.L)
		for k, l := range x.leaves(p.Type()) {
			if l.Kind == LRef && l.Path != "#val" {
				x.assumeAllocated(st, v.L[k])
			}
		}
		if pt, ok := p.Type().Underlying().(*types.Pointer); ok && v.Ptr == nil {
			el := pt.Elem()
			_, isSt := isStruct(el)
			_, isArr := el.Underlying().(*types.Array)
			if !isSt && !isArr {
				// pointer to a non-struct value (*[]T, *int, ...): the function is verified with the
				// pointee in a location of its own
				v.Ptr = &PtrInfo{Kind: PLoc, T: el, Loc: Loc{Class: "p:" + typeKey(el), Idx: []*Term{v.L[0]}}}
				if x.ptrTab == nil {
					x.ptrTab = map[int]*PtrInfo{}
				}
				x.ptrTab[v.L[0].ID] = v.Ptr
				x.assumed["pointer parameter "+p.Name()+" of "+fn.Name()+" points to a location not otherwise accessed by the function"] = true
			}
		}
		fr.vals[p] = v
		args = append(args, v)
	}
	fr.args = args
	{
		h := x.heapGet(st, "g:adrop", tb.Array(tb.BV(64), tb.BV(64)))
		x.heapSet(st, "g:adrop", tb.Store(h, tb.BVInt(0, 64), tb.BVInt(0, 64)))
	}
	x.loadAxioms(st)
	for _, a := range args {
		for _, l := range a.L {
			if l.Sort.Kind != SArray {
				x.inputs = append(x.inputs, l)
			}
		}
	}
	if u.Pre != nil {
		pre, facts := x.runSpecF(u.Pre, st, nil, args)
		x.assume(st, facts)
		for _, c := range pre.L {
			x.assume(st, c)
		}
		// vacuity guard
		o := &Obligation{Name: x.unitName() + "#cover:requires", Kind: "cover", Func: x.unitName(), Hyp: st.reach, Goal: tb.False, Cover: true, Props: u.C.Props}
		x.obls = append(x.obls, o)
	}
	x.entry = st.clone()
	if u.Old != nil {
		ov, _ := x.runSpecF(u.Old, st, nil, args)
		fr.oldVals = splitTuple(x, ov)
	}
	exit, results := x.runFunc(fr, st)
	if !exit.dead && !exit.reach.IsFalse() && len(fn.Blocks) > 0 {
		// vacuity guard: the function can return (assumed callee contracts, loop invariants and
		// collected facts are not contradictory on every path)
		o := &Obligation{Name: x.unitName() + "#cover:return", Kind: "cover", Func: x.unitName(), Hyp: exit.reach, Goal: tb.False, Cover: true, Props: u.C.Props}
		x.obls = append(x.obls, o)
	}
	// explicit atomic-step contracts are checked as ordinary postconditions over ghost state; nothing here
	if u.Post != nil && !exit.dead {
		// one obligation per postcondition and return point: no merged state, no merged results
		exs := x.topExits
		if len(exs) == 0 {
			exs = []exitRec{{exit, results, token.NoPos}}
		}
		for _, e := range exs {
			pargs := append([]Val{}, args...)
			pargs = append(pargs, splitTuple(x, e.res)...)
			pargs = append(pargs, fr.oldVals...)
			est := e.st.clone()
			post, facts := x.runSpecF(u.Post, est, x.entry, pargs)
			x.assume(est, facts)
			for k, c := range u.C.Ensures {
				lbl := fmt.Sprintf("%d", k)
				if c.Label != "" {
					lbl = c.Label
				}
				x.curProps = x.propsOf(c, u)
				x.addObl(&Frame{lpkg: u.Pkg, fn: fn}, est, "post", nil, lbl, post.L[k])
				if e.pos.IsValid() && len(x.obls) > 0 {
					pp := x.ld.Fset.Position(e.pos)
					x.obls[len(x.obls)-1].Pos = fmt.Sprintf("return at %s:%d", filepath.Base(pp.Filename), pp.Line)
				}
			}
		}
		x.curProps = u.C.Props
	}
	if u.C.Partial {
		// partial contract: only its assertions are decided; the function's other obligations are
		// not generated (and the function is reported as partially verified)
		var keep []*Obligation
		for _, o := range x.obls {
			ok := o.Kind == "assert" || o.Kind == "cover" || o.Kind == "inv-init" || o.Kind == "inv-pres"
			for _, k := range u.C.PartialKinds {
				if k == "lock" && o.Kind == "pre" && (strings.Contains(o.Tag, "held(") || strings.Contains(o.Tag, "nolocks(") || strings.Contains(o.Tag, "sending(")) {
					ok = true // a callee's contract is only assumed where its lock-state precondition holds
				}
				if o.Kind == k || (strings.Contains(k, ":") && strings.Contains(o.Name, "#"+k)) {
					ok = true
				}
			}
			if ok {
				keep = append(keep, o)
			}
		}
		x.obls = keep
		x.assumed["partial contract of "+u.Pkg.Name+"."+u.Key+": only its assertions and invariants"+kindsNote(u.C.PartialKinds)+" are decided, the function's other obligations are not generated"] = true
	}
	if !u.C.Partial {
		// "nilfunc" (call of a nil function value) is an opt-in kind: generated only for partial
		// contracts that list it
		var keep []*Obligation
		for _, o := range x.obls {
			if o.Kind != "nilfunc" {
				keep = append(keep, o)
			}
		}
		x.obls = keep
	}
	res.Obls = x.obls
	for _, o := range res.Obls {
		o.x = x
	}
	return res
}

// loadAxioms evaluates every `axiom` of the loaded packages in the initial state and keeps the
// results as global facts (each axiom is listed among the assumptions).
func (x *Exec) loadAxioms(st *State) {
	for _, lp := range x.ld.Order {
		for _, l := range lp.Lemmas {
			if !l.L.Axiom || l.Fn == nil {
				continue
			}
			v, facts := x.runSpecF(l.Fn, st, st, nil)
			x.facts = append(x.facts, x.tb.Implies(facts, v.L[0]))
			x.assumed["axiom "+lp.Name+"."+l.L.Name+": "+l.L.Expr] = true
		}
	}
}

func splitTuple(x *Exec, v Val) []Val {
	tt, ok := v.T.(*types.Tuple)
	if !ok {
		return []Val{v}
	}
	var out []Val
	off := 0
	for i := 0; i < tt.Len(); i++ {
		n := x.nleaves(tt.At(i).Type())
		out = append(out, Val{T: tt.At(i).Type(), L: v.L[off : off+n]})
		off += n
	}
	return out
}

// runSpecF evaluates a stub and also returns the well-formedness facts collected on the way.
func (x *Exec) runSpecF(fn *ssa.Function, st *State, old *State, args []Val) (Val, *Term) {
	nf := x.newFrame(fn, nil)
	nf.spec = true
	nf.oldState = old
	for i, p := range fn.Params {
		if i >= len(args) {
			panic(fmt.Sprintf("spec function %s: missing argument %d", fn.Name(), i))
		}
		a := args[i]
		if len(a.L) != x.nleaves(p.Type()) {
			panic(fmt.Sprintf("spec arg %d of %s: leaf count mismatch %d vs %d (%s vs %s)", i, fn.Name(), len(a.L), x.nleaves(p.Type()), a.T, p.Type()))
		}
		a.T = p.Type()
		nf.vals[p] = a
	}
	sub := st.clone()
	sub.reach = x.tb.True
	sub.pc = nil
	ex, res := x.runFunc(nf, sub)
	return res, ex.reach
}

func VerifyLemma(ld *Loaded, lp *LPkg, l *LemmaUnit, cfg *Config) (res *UnitResult) {
	res = &UnitResult{Unit: lp.Name + ".lemma." + l.L.Name, Pkg: lp.Path, Lemma: true}
	if l.L.Axiom {
		res.Trusted = true
		return res
	}
	x := NewExec(ld, cfg)
	x.unit = &FuncUnit{Pkg: lp, Key: "lemma." + l.L.Name, C: &FuncContract{Props: l.L.Props}}
	x.curProps = l.L.Props
	defer func() {
		if r := recover(); r != nil {
			res.Err = fmt.Sprintf("engine panic: %v\n%s", r, debug.Stack())
		}
	}()
	st := &State{reach: x.tb.True, heap: map[string]*Term{}, epoch: x.newEpoch(), cells: map[cellKey][]*Term{}}
	x.entry = st.clone()
	v, facts := x.runSpecF(l.Fn, st, st, nil)
	x.assume(st, facts)
	o := &Obligation{Name: res.Unit, Kind: "lemma", Func: res.Unit, Hyp: st.reach, Goal: v.L[0], Props: l.L.Props, x: x}
	res.Obls = []*Obligation{o}
	return res
}

// ---------- discharge

func (o *Obligation) query(all bool) string { return o.queryOpt(all, false) }

func (o *Obligation) queryOpt(all bool, absMul bool) string {
	x := o.x
	tb := x.tb
	var as []*Term
	if o.slice && !o.Cover {
		h := o.Hyp
		if o.noQuant {
			h = tb.DropQuant(h, true)
		}
		as = append(as, sliceHyp(h, o.Goal, o.noQuant)...)
	} else if o.noQuant && !o.Cover {
		as = append(as, tb.DropQuant(o.Hyp, true))
	} else {
		as = append(as, o.Hyp)
	}
	if !o.Cover {
		as = append(as, tb.Not(o.Goal))
	}
	// relevant facts: those whose trigger terms occur in the cone
	cone := map[int]bool{}
	var visit func(t *Term)
	visit = func(t *Term) {
		if cone[t.ID] {
			return
		}
		cone[t.ID] = true
		for _, a := range t.Args {
			visit(a)
		}
	}
	for _, a := range as {
		visit(a)
	}
	for changed := true; changed; {
		changed = false
		for _, f := range x.facts {
			if cone[-f.ID] {
				continue
			}
			if factRelevant(f, cone) {
				cone[-f.ID] = true
				as = append(as, f)
				visit(f)
				changed = true
			}
		}
	}
	return tb.QueryOpt(as, x.inputs, all, absMul)
}

// sliceHyp keeps the top-level conjuncts of hyp that are connected to the goal through shared
// scalar symbols (free constants that are not heap arrays, and uninterpreted applications).
func sliceHyp(hyp, goal *Term, noQuant bool) []*Term {
	var conj []*Term
	if hyp.Op == "and" {
		conj = hyp.Args
	} else {
		conj = []*Term{hyp}
	}
	symsOf := func(t *Term) map[int]bool {
		out := map[int]bool{}
		seen := map[int]bool{}
		var walk func(t *Term)
		walk = func(t *Term) {
			if seen[t.ID] {
				return
			}
			seen[t.ID] = true
			if t.Op == "var" && t.Sort.Kind != SArray {
				out[t.ID] = true
			}
			for _, a := range t.Args {
				walk(a)
			}
		}
		walk(t)
		return out
	}
	cs := make([]map[int]bool, len(conj))
	for i, c := range conj {
		cs[i] = symsOf(c)
	}
	live := symsOf(goal)
	keep := make([]bool, len(conj))
	// quantified conjuncts (always facts about array contents) are kept only when the goal reads
	// arrays at all and they mention a symbol of the goal itself
	goalArrays := false
	{
		seen := map[int]bool{}
		var walk func(t *Term)
		walk = func(t *Term) {
			if seen[t.ID] || goalArrays {
				return
			}
			seen[t.ID] = true
			if t.Sort.Kind == SArray {
				goalArrays = true
				return
			}
			for _, a := range t.Args {
				walk(a)
			}
		}
		walk(goal)
	}
	if noQuant {
		goalArrays = false
	}
	for i, c := range conj {
		if c.hasBnd && goalArrays {
			for s := range cs[i] {
				if live[s] {
					keep[i] = true
					break
				}
			}
		}
	}
	for changed := true; changed; {
		changed = false
		for i := range conj {
			if keep[i] || conj[i].hasBnd {
				continue
			}
			hit := len(cs[i]) == 0 // closed facts (about heap arrays only) are kept
			for s := range cs[i] {
				if live[s] {
					hit = true
					break
				}
			}
			if hit {
				keep[i] = true
				changed = true
				for s := range cs[i] {
					live[s] = true
				}
			}
		}
	}
	var out []*Term
	nq, kq := 0, 0
	for i, c := range conj {
		if c.hasBnd {
			nq++
		}
		if keep[i] {
			out = append(out, c)
			if c.hasBnd {
				kq++
			}
		}
	}
	if os.Getenv("GOVC_DEBUG_SLICE") != "" {
		fmt.Fprintf(os.Stderr, "slice: %d conjuncts (%d quantified) -> kept %d (%d quantified), goalArrays=%v\n", len(conj), nq, len(out), kq, goalArrays)
	}
	return out
}

// a fact is relevant when its left-most uninterpreted application (the axiomatised term) is in the cone
func factRelevant(f *Term, cone map[int]bool) bool {
	if f.Op == "forall" {
		return true // universally stated constructor axioms: few, always included
	}
	var trig *Term
	var find func(t *Term)
	find = func(t *Term) {
		if trig != nil {
			return
		}
		for _, a := range t.Args {
			find(a)
		}
		if trig == nil && strings.HasPrefix(t.Op, "uf:") && t.Name != "origin" && !strings.HasPrefix(t.Name, "parent") && t.Name != "strbyte" {
			trig = t
		}
		if trig == nil && t.Op == "var" && (strings.HasPrefix(t.Name, "strlit") || strings.HasPrefix(t.Name, "glob")) {
			trig = t
		}
	}
	find(f)
	if trig == nil {
		return true
	}
	return cone[trig.ID]
}

func Discharge(obls []*Obligation, cfg *Config, workers int) {
	var wg sync.WaitGroup
	ch := make(chan *Obligation)
	for w := 0; w < workers; w++ {
		wg.Add(1)
		go func() {
			defer wg.Done()
			for o := range ch {
				dischargeOne(o, cfg)
			}
		}()
	}
	for _, o := range obls {
		ch <- o
	}
	close(ch)
	wg.Wait()
}

var genMu sync.Mutex

func dischargeOne(o *Obligation, cfg *Config) {
	if o.Status != "" {
		return
	}
	// query generation touches the shared term builder of the unit: serialise per exec
	o.x.mu.Lock()
	qp := o.query(false)
	qa := o.query(true)
	var weak []weakQuery
	if !o.Cover {
		hasMul := strings.Contains(qp, "(bvmul t")
		if hasMul {
			qm := o.queryOpt(false, true)
			if strings.Contains(qm, "absmul") {
				weak = append(weak, weakQuery{qm, "(absmul)"})
			}
		}
		// hypothesis sliced to the conjuncts connected to the goal (dropping hypotheses is sound)
		o.slice = true
		qs := o.queryOpt(false, false)
		if os.Getenv("GOVC_DEBUG_SLICE") != "" {
			fmt.Fprintf(os.Stderr, "slice %s: %d -> %d bytes\n", o.Name, len(qp), len(qs))
		}
		if len(qs) < len(qp) {
			weak = append(weak, weakQuery{qs, "(sliced)"})
			if hasMul {
				qsm := o.queryOpt(false, true)
				if strings.Contains(qsm, "absmul") {
					weak = append(weak, weakQuery{qsm, "(sliced,absmul)"})
				}
			}
		}
		// and without any quantified hypothesis at all
		o.noQuant = true
		qn := o.queryOpt(false, false)
		if len(qn) < len(qs) && strings.Contains(qs, "(forall") {
			weak = append(weak, weakQuery{qn, "(sliced,noquant)"})
			if hasMul {
				qnm := o.queryOpt(false, true)
				if strings.Contains(qnm, "absmul") {
					weak = append(weak, weakQuery{qnm, "(sliced,noquant,absmul)"})
				}
			}
		}
		o.slice = false
		if os.Getenv("GOVC_DEBUG_SLICE") != "" && o.Goal.hasBnd {
			g := tb0(o).Show(o.Goal)
			if len(g) > 1500 {
				g = g[:1500]
			}
			fmt.Fprintf(os.Stderr, "goal with binder %s: %s\n", o.Name, g)
		}
		if strings.Contains(qp, "(forall") && !o.Goal.hasBnd {
			// all hypotheses, quantified ones dropped (ground goal)
			qq := o.queryOpt(false, false)
			if os.Getenv("GOVC_DEBUG_SLICE") != "" {
				fmt.Fprintf(os.Stderr, "noquant %s: %d -> %d bytes\n", o.Name, len(qp), len(qq))
			}
			if len(qq) < len(qp) {
				weak = append([]weakQuery{{qq, "(noquant)"}}, weak...)
			}
		}
		o.noQuant = false
	}
	o.x.mu.Unlock()
	o.QuerySz = len(qp)
	if cfg.DumpDir != "" {
		dumpQuery(cfg.DumpDir, o.Name, qp)
		for _, w := range weak {
			dumpQuery(cfg.DumpDir, o.Name+"."+strings.Trim(w.label, "()"), w.q)
		}
	}
	if len(qp) > 4<<20 {
		o.Status = "undecided"
		o.Res = SolveResult{Status: "toolarge"}
		if o.Cover {
			// a cover only fails on unsat; a query too large to ask is not a refutation (a harmless
			// restructuring that makes the path condition bigger must not raise an alarm)
			o.Status = "discharged"
			o.Res.Solver = "none(cover-not-refuted)"
		}
		return
	}
	tmo := cfg.TimeoutMs
	if o.Cover && tmo > 8000 {
		tmo = 8000
	}
	r := Solve(qp, qa, weak, tmo)
	if r.Status != "unsat" && r.Status != "sat" && !o.Cover {
		// one retry with a doubled budget (loaded machine)
		r2 := Solve(qp, qa, weak, cfg.TimeoutMs*2)
		r2.Tried = append(r.Tried, r2.Tried...)
		r = r2
	}
	o.Res = r
	switch {
	case o.Cover && r.Status == "sat":
		o.Status = "discharged"
	case o.Cover && r.Status == "unsat" && o.Advisory:
		o.Status = "discharged"
		o.Res.Solver += "(UNREACHABLE)"
	case o.Cover && r.Status == "unsat":
		o.Status = "failed" // vacuous: the hypotheses are contradictory
	case o.Cover:
		// not refuted within the budget (quantified hypotheses): a cover only fails on unsat
		o.Status = "discharged"
		o.Res.Solver += "(cover-not-refuted)"
	case !o.Cover && r.Status == "unsat":
		o.Status = "discharged"
	case !o.Cover && r.Status == "sat":
		o.Status = "failed"
		if cfg.Verbose {
			o.Diag = diagnose(o)
		}
	default:
		o.Status = "undecided"
	}
}

// diagnose: which conjuncts of the goal are false in a model (development aid).
func diagnose(o *Obligation) string {
	x := o.x
	var conj []*Term
	var flat func(t *Term)
	flat = func(t *Term) {
		if t.Op == "and" {
			for _, a := range t.Args {
				flat(a)
			}
			return
		}
		if !t.hasBnd {
			conj = append(conj, t)
		}
	}
	flat(o.Goal)
	if len(conj) > 40 {
		conj = conj[:40]
	}
	// also report the loop variables (phis) and callee results occurring in the goal
	var phis []*Term
	seenV := map[int]bool{}
	var vars func(t *Term)
	vars = func(t *Term) {
		if seenV[t.ID] {
			return
		}
		seenV[t.ID] = true
		if t.Op == "var" && t.Sort.Kind != SArray && (strings.HasPrefix(t.Name, "phi_") || strings.HasPrefix(t.Name, "r_") || strings.HasPrefix(t.Name, "p_")) {
			phis = append(phis, t)
		}
		for _, a := range t.Args {
			vars(a)
		}
	}
	vars(o.Goal)
	if len(phis) > 30 {
		phis = phis[:30]
	}
	if len(phis) > 0 {
		x.mu.Lock()
		save := x.inputs
		x.inputs = phis
		q := o.query(false)
		x.inputs = save
		x.mu.Unlock()
		r := runOne(context.Background(), solvers[0], q, 20000)
		if r.Status == "sat" {
			return "\n        goal vars: " + strings.Join(strings.Fields(modelOf(r.Output)), " ") + diagConj(o, conj)
		}
	}
	return diagConj(o, conj)
}

func diagConj(o *Obligation, conj []*Term) string {
	x := o.x
	tb := x.tb
	if len(conj) == 0 {
		return ""
	}
	x.mu.Lock()
	save := x.inputs
	x.inputs = conj
	q := o.query(false)
	x.inputs = save
	x.mu.Unlock()
	r := runOne(context.Background(), solvers[0], q, 20000)
	if r.Status != "sat" {
		return "diag: " + r.Status
	}
	// parse values in order: the get-value reply lists (term value) pairs; count trailing values
	out := r.Output
	var sb strings.Builder
	vals := regexp.MustCompile(`\s(true|false)\)`).FindAllStringSubmatch(out, -1)
	for i, c := range conj {
		v := "?"
		if i < len(vals) {
			v = vals[i][1]
		}
		if v != "true" {
			s := tb.Show(c)
			if len(s) > 300 {
				s = s[:300]
			}
			fmt.Fprintf(&sb, "\n        conj %d = %s: %s", i, v, s)
		}
	}
	return sb.String()
}

func tb0(o *Obligation) *TB { return o.x.tb }

func kindsNote(ks []string) string {
	if len(ks) == 0 {
		return ""
	}
	return " and the obligations of kind " + strings.Join(ks, ", ")
}
