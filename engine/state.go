package main

import (
	"fmt"
	"go/types"
	"sort"
	"strings"

	"golang.org/x/tools/go/ssa"
)

type Epoch struct {
	id    int
	merge []epochArm
	cache map[string]*Term
	// partial havoc: classes matching one of the havoc prefixes are fresh in this epoch, every
	// other class is the parent's
	parent *Epoch
	havoc  []string
	now    *Term // allocation clock when the epoch began (nil: the epoch's own g:now variable)
}

type epochArm struct {
	cond *Term
	from *Epoch
}

type State struct {
	reach *Term
	pc    *Term // branch decisions only (nil: true); reach = pc & facts assumed along the path
	heap  map[string]*Term
	epoch *Epoch
	cells map[cellKey][]*Term
	dead  bool
}

func (x *Exec) newEpoch() *Epoch {
	x.epochN++
	return &Epoch{id: x.epochN, cache: map[string]*Term{}}
}

func (st *State) clone() *State {
	n := &State{reach: st.reach, pc: st.pc, epoch: st.epoch, heap: make(map[string]*Term, len(st.heap)), cells: make(map[cellKey][]*Term, len(st.cells))}
	for k, v := range st.heap {
		n.heap[k] = v
	}
	for k, v := range st.cells {
		n.cells[k] = v
	}
	return n
}

func (x *Exec) epochInit(e *Epoch, class string, s *Sort) *Term {
	if t, ok := e.cache[class]; ok {
		return t
	}
	var t *Term
	if x.epoch0 != nil && e != x.epoch0 && x.isImmutable(class) {
		// field declared immutable (option immutable:Type.field): no havoc reaches it
		t = x.epochInit(x.epoch0, class, s)
		e.cache[class] = t
		return t
	}
	if e.parent != nil && !classMatches(class, e.havoc) {
		t = x.epochInit(e.parent, class, s)
		e.cache[class] = t
		return t
	}
	if len(e.merge) == 0 {
		t = x.tb.Var(fmt.Sprintf("H%d.%s", e.id, class), s)
		if class != "g:now" {
			x.baseNow[t.ID] = x.epochNow(e)
		} else {
			x.facts = append(x.facts, x.tb.ULe(x.tb.BVInt(1, 64), t), x.tb.ULe(t, x.tb.BVInt(1<<32, 64)))
		}
	} else {
		t = x.epochInit(e.merge[len(e.merge)-1].from, class, s)
		for i := len(e.merge) - 2; i >= 0; i-- {
			t = x.tb.Ite(e.merge[i].cond, x.epochInit(e.merge[i].from, class, s), t)
		}
	}
	e.cache[class] = t
	return t
}

// epochNow: the allocation clock at the beginning of epoch e; every reference stored in the
// epoch's initial heap denotes an object born before it.
func (x *Exec) epochNow(e *Epoch) *Term {
	if e.now != nil {
		return e.now
	}
	return x.epochInit(e, "g:now", x.tb.BV(64))
}

func classMatches(c string, prefixes []string) bool {
	for _, p := range prefixes {
		if c == p || strings.HasPrefix(c, p+"#") || strings.HasPrefix(c, p+".") {
			return true
		}
	}
	return false
}

// isImmutable: the class is a struct field declared immutable by an `option immutable:Type.field`
// of its package's contracts (an assumption: the field is written only when its object is made).
func (x *Exec) isImmutable(c string) bool {
	if x.immutable == nil {
		x.immutable = map[string]bool{}
		for _, lp := range x.ld.Pkgs {
			if lp.CF == nil {
				continue
			}
			for o := range lp.CF.Options {
				if strings.HasPrefix(o, "immutable:") {
					x.immutable["f:"+lp.Path+"."+strings.TrimPrefix(o, "immutable:")] = true
				}
			}
		}
	}
	if len(x.immutable) == 0 {
		return false
	}
	if x.immutable[c] {
		return true
	}
	if i := strings.IndexAny(c, "#"); i > 0 && x.immutable[c[:i]] {
		return true
	}
	return false
}

// isCallbackPrivate: the class belongs to an unexported type (or field) that its package's
// contracts declare out of reach of callbacks (`option callbackframe:Type` or
// `callbackframe:Type.field`): calls through function values and interfaces leave it alone.
// An assumption, reported whenever it is used.
func (x *Exec) isCallbackPrivate(c string) bool {
	if x.cbPrivate == nil {
		x.cbPrivate = []string{}
		for _, lp := range x.ld.Pkgs {
			if lp.CF == nil {
				continue
			}
			for o := range lp.CF.Options {
				if strings.HasPrefix(o, "callbackframe:") {
					n := strings.TrimPrefix(o, "callbackframe:")
					if strings.Contains(n, ".") {
						x.cbPrivate = append(x.cbPrivate, "f:"+lp.Path+"."+n)
					} else {
						x.cbPrivate = append(x.cbPrivate, "e:"+lp.Path+"."+n, "f:"+lp.Path+"."+n)
						x.cbPrivateMap = append(x.cbPrivateMap, lp.Path+"."+n) // maps keyed by or holding the type
					}
				}
			}
		}
		sort.Strings(x.cbPrivate)
	}
	if len(x.cbPrivate) > 0 && classMatches(c, x.cbPrivate) {
		return true
	}
	if strings.HasPrefix(c, "m:") {
		for _, n := range x.cbPrivateMap {
			if i := strings.Index(c, n); i >= 0 {
				rest := c[i+len(n):]
				if rest == "" || !(rest[0] == '_' || rest[0] >= '0' && rest[0] <= '9' || rest[0] >= 'a' && rest[0] <= 'z' || rest[0] >= 'A' && rest[0] <= 'Z') {
					return true
				}
			}
		}
	}
	return false
}

// havocAllBut is havocAll for effects whose "everything" comes from calls to unknown code:
// classes declared out of reach of callbacks survive unless the effects name them.
func (x *Exec) havocAllBut(st *State, written map[string]bool) {
	kept := map[string]*Term{}
	if x.isCallbackPrivate(""); len(x.cbPrivate) > 0 {
		var wr []string
		for c := range written {
			wr = append(wr, c)
		}
		for c, s := range x.classSort {
			if !x.isCallbackPrivate(c) || classMatches(c, wr) {
				continue
			}
			kept[c] = x.heapGet(st, c, s)
		}
	}
	x.havocAll(st)
	for c, t := range kept {
		st.heap[c] = t
		x.assumed["unknown code (calls through function values and interfaces, stores through pointers of unknown origin) does not write "+c+" (option callbackframe)"] = true
	}
}

func isGhostClass(c string) bool { return strings.HasPrefix(c, "g:") }

func (x *Exec) heapGet(st *State, class string, s *Sort) *Term {
	if t, ok := st.heap[class]; ok {
		if t.Sort != s {
			panic(fmt.Sprintf("heap class %s sort clash %s vs %s", class, t.Sort, s))
		}
		return t
	}
	x.classSort[class] = s
	return x.epochInit(st.epoch, class, s)
}

func (x *Exec) heapSet(st *State, class string, t *Term) {
	x.classSort[class] = t.Sort
	st.heap[class] = t
}

// havocAll forgets every non-ghost heap class (new epoch) but keeps ghost classes.
func (x *Exec) havocAll(st *State) {
	x.bumpNow(st)
	old := st.heap
	oldEpoch := st.epoch
	st.heap = map[string]*Term{}
	st.epoch = x.newEpoch()
	st.epoch.now = x.now(&State{heap: old, epoch: oldEpoch})
	// ghost classes survive: materialise every known ghost class
	for c, s := range x.classSort {
		if isGhostClass(c) || x.isImmutable(c) || (strings.HasPrefix(c, "b:") && !x.boxEsc) {
			if t, ok := old[c]; ok {
				st.heap[c] = t
			} else {
				st.heap[c] = x.epochInit(oldEpoch, c, s)
			}
		}
	}
}

func (x *Exec) havocClass(st *State, class string, s *Sort) {
	x.classSort[class] = s
	t := x.tb.Fresh("Hh."+class, s)
	if class != "g:now" {
		x.baseNow[t.ID] = x.now(st)
	}
	st.heap[class] = t
}

// mergeStates merges states of mutually exclusive paths.
func (x *Exec) mergeStates(sts []*State) *State {
	var live []*State
	for _, s := range sts {
		if s != nil && !s.dead && !s.reach.IsFalse() {
			live = append(live, s)
		}
	}
	if len(live) == 0 {
		return &State{reach: x.tb.False, heap: map[string]*Term{}, epoch: x.newEpoch(), cells: map[cellKey][]*Term{}, dead: true}
	}
	if len(live) == 1 {
		return live[0].clone()
	}
	out := &State{heap: map[string]*Term{}, cells: map[cellKey][]*Term{}}
	var rs []*Term
	for _, s := range live {
		rs = append(rs, s.reach)
	}
	out.reach = x.factoredOr(rs)
	var pcs []*Term
	for _, s := range live {
		pcs = append(pcs, x.pcOf(s))
	}
	out.pc = x.factoredOr(pcs)
	// selectors: the branch decisions alone tell the merged paths apart (deterministic control
	// flow); facts assumed along a path (callee postconditions, invariants) stay out of them
	own := x.ownConds(pcs)
	sameEpoch := true
	for _, s := range live[1:] {
		if s.epoch != live[0].epoch {
			sameEpoch = false
		}
	}
	if sameEpoch {
		out.epoch = live[0].epoch
	} else {
		e := x.newEpoch()
		for i, s := range live {
			e.merge = append(e.merge, epochArm{own[i], s.epoch})
		}
		out.epoch = e
	}
	classes := map[string]bool{}
	for _, s := range live {
		for c := range s.heap {
			classes[c] = true
		}
	}
	var cl []string
	for c := range classes {
		cl = append(cl, c)
	}
	sort.Strings(cl)
	for _, c := range cl {
		srt := x.classSort[c]
		t := x.heapGet(live[len(live)-1], c, srt)
		for i := len(live) - 2; i >= 0; i-- {
			t = x.tb.Ite(own[i], x.heapGet(live[i], c, srt), t)
		}
		out.heap[c] = t
	}
	cells := map[cellKey]bool{}
	for _, s := range live {
		for k := range s.cells {
			cells[k] = true
		}
	}
	for k := range cells {
		var base []*Term
		okAll := true
		for _, s := range live {
			if _, ok := s.cells[k]; !ok {
				okAll = false
			}
		}
		if !okAll {
			continue // cell not live on all paths: dead afterwards (SSA guarantees dominance of the Alloc)
		}
		base = live[len(live)-1].cells[k]
		res := make([]*Term, len(base))
		copy(res, base)
		for i := len(live) - 2; i >= 0; i-- {
			ci := live[i].cells[k]
			for j := range res {
				res[j] = x.tb.Ite(own[i], ci[j], res[j])
			}
		}
		out.cells[k] = res
	}
	return out
}

// ownConds returns, for mutually exclusive path conditions, the part of each that is not shared
// by all of them.  Under the merged condition (shared part & disjunction) these distinguish the
// paths exactly like the full conditions do, but they are much smaller selectors for ite merges.
func (x *Exec) ownConds(rs []*Term) []*Term {
	tb := x.tb
	conjs := func(t *Term) []*Term {
		if t.Op == "and" {
			return t.Args
		}
		return []*Term{t}
	}
	common := map[int]int{}
	for _, r := range rs {
		seen := map[int]bool{}
		for _, c := range conjs(r) {
			if !seen[c.ID] {
				seen[c.ID] = true
				common[c.ID]++
			}
		}
	}
	out := make([]*Term, len(rs))
	for i, r := range rs {
		var own []*Term
		for _, c := range conjs(r) {
			if common[c.ID] != len(rs) {
				own = append(own, c)
			}
		}
		out[i] = tb.And(own...)
	}
	return out
}

// factoredOr builds the disjunction of path conditions with their common conjuncts pulled out:
// (A & B & C) | (A & B & D)  =  A & B & (C | D).  Keeps hypotheses flat for slicing.
func (x *Exec) factoredOr(rs []*Term) *Term {
	tb := x.tb
	if len(rs) < 2 {
		return tb.Or(rs...)
	}
	conjs := func(t *Term) []*Term {
		if t.Op == "and" {
			return t.Args
		}
		return []*Term{t}
	}
	common := map[int]int{}
	for _, r := range rs {
		seen := map[int]bool{}
		for _, c := range conjs(r) {
			if !seen[c.ID] {
				seen[c.ID] = true
				common[c.ID]++
			}
		}
	}
	var shared []*Term
	for _, c := range conjs(rs[0]) {
		if common[c.ID] == len(rs) {
			shared = append(shared, c)
		}
	}
	if len(shared) == 0 {
		return tb.Or(rs...)
	}
	var rest []*Term
	for _, r := range rs {
		var own []*Term
		for _, c := range conjs(r) {
			if common[c.ID] != len(rs) {
				own = append(own, c)
			}
		}
		rest = append(rest, tb.And(own...))
	}
	return tb.And(append(shared, tb.Or(rest...))...)
}

func (x *Exec) assume(st *State, c *Term) {
	st.reach = x.tb.And(st.reach, c)
}

// branch: the path takes a branch whose condition is c.
func (x *Exec) branch(st *State, c *Term) {
	st.reach = x.tb.And(st.reach, c)
	st.pc = x.tb.And(x.pcOf(st), c)
}

func (x *Exec) pcOf(st *State) *Term {
	if st.pc == nil {
		return x.tb.True
	}
	return st.pc
}

// ---------- memory access

// refOK is the obligation condition for dereferencing ref.
func (x *Exec) nonNil(ref *Term) *Term { return x.tb.Not(x.tb.Eq(ref, x.tb.BVInt(0, 64))) }

// interior returns the reference of the struct-typed field i embedded in object ref of type t.
func (x *Exec) interior(t types.Type, i int, ref *Term) *Term {
	name := "in:" + typeKey(t) + "." + t.Underlying().(*types.Struct).Field(i).Name()
	r := x.tb.UF(name, x.tb.BV(64), ref)
	x.addRefAxioms(name, r, []*Term{ref})
	return r
}

func (x *Exec) elemRef(elemT types.Type, arr, idx *Term) *Term {
	name := "el:" + typeKey(elemT)
	r := x.tb.UF(name, x.tb.BV(64), arr, idx)
	x.addRefAxioms(name, r, []*Term{arr, idx})
	return r
}

// addRefAxioms: origin/parent axioms making the constructor injective, non-nil and distinct
// from other constructors and from plainly allocated objects (origin 0).
func (x *Exec) addRefAxioms(name string, r *Term, args []*Term) {
	if r.hasBnd {
		// applied to a bound variable (inside a quantifier over objects): state the constructor's
		// axioms once, universally (one-argument constructors: embedded struct fields)
		if len(args) == 1 && !x.refAxQ[name] {
			if x.refAxQ == nil {
				x.refAxQ = map[string]bool{}
			}
			x.refAxQ[name] = true
			id, ok := x.originID[name]
			if !ok {
				id = len(x.originID) + 1
				x.originID[name] = id
			}
			bv64 := x.tb.BV(64)
			v := x.tb.BoundVar("o", bv64)
			ap := x.tb.UF(name, bv64, v)
			x.facts = append(x.facts, x.tb.Forall([]*Term{v}, x.tb.And(
				x.tb.Eq(x.tb.UF("origin", bv64, ap), x.tb.BVInt(int64(id), 64)),
				x.nonNil(ap),
				x.tb.Eq(x.tb.UF("parent0", bv64, ap), v))))
		}
		return
	}
	if x.refAx[r.ID] {
		return
	}
	x.refAx[r.ID] = true
	id, ok := x.originID[name]
	if !ok {
		id = len(x.originID) + 1
		x.originID[name] = id
	}
	bv64 := x.tb.BV(64)
	x.facts = append(x.facts, x.tb.Eq(x.tb.UF("origin", bv64, r), x.tb.BVInt(int64(id), 64)))
	x.facts = append(x.facts, x.nonNil(r))
	for i, a := range args {
		x.facts = append(x.facts, x.tb.Eq(x.tb.UF(fmt.Sprintf("parent%d", i), bv64, r), a))
	}
	if len(args) > 0 {
		x.facts = append(x.facts, x.tb.Eq(x.birth(r), x.birth(args[0])))
	}
}

// loadObj loads a whole value of type t stored at object reference ref (t is a struct type).
func (x *Exec) loadStructAt(st *State, t types.Type, ref *Term) []*Term {
	s := t.Underlying().(*types.Struct)
	var out []*Term
	for i := 0; i < s.NumFields(); i++ {
		ft := s.Field(i).Type()
		if _, ok := isStruct(ft); ok {
			out = append(out, x.loadStructAt(st, ft, x.interior(t, i, ref))...)
		} else {
			out = append(out, x.loadLoc(st, ft, Loc{structClass(t, i), []*Term{ref}})...)
		}
	}
	return out
}

func (x *Exec) storeStructAt(st *State, t types.Type, ref *Term, vals []*Term) {
	s := t.Underlying().(*types.Struct)
	off := 0
	for i := 0; i < s.NumFields(); i++ {
		ft := s.Field(i).Type()
		n := x.nleaves(ft)
		if _, ok := isStruct(ft); ok {
			x.storeStructAt(st, ft, x.interior(t, i, ref), vals[off:off+n])
		} else {
			x.storeLoc(st, ft, Loc{structClass(t, i), []*Term{ref}}, vals[off:off+n])
		}
		off += n
	}
}

func (x *Exec) locArraySort(idxN int, leaf *Sort) *Sort {
	s := leaf
	for i := 0; i < idxN; i++ {
		s = x.tb.Array(x.tb.BV(64), s)
	}
	return s
}

// loadLoc loads a non-struct value of type t from loc.
func (x *Exec) loadLoc(st *State, t types.Type, loc Loc) []*Term {
	if arr, ok := t.Underlying().(*types.Array); ok {
		// array stored in element heaps under a derived array id
		id := x.fieldArrID(loc)
		return x.loadArrayValue(st, arr, id)
	}
	ls := x.leaves(t)
	out := make([]*Term, len(ls))
	if strings.HasPrefix(loc.Class, "c:") {
		for i, l := range ls {
			out[i] = x.tb.UF("const:"+loc.Class[2:]+l.Path, l.Sort)
		}
		x.assumeWF(st, t, out)
		return out
	}
	for i, l := range ls {
		cls := loc.Class + l.Path
		h := x.heapGet(st, cls, x.locArraySort(len(loc.Idx), l.Sort))
		v := h
		for _, ix := range loc.Idx {
			v = x.tb.Select(v, ix)
		}
		out[i] = v
	}
	x.assumeWF(st, t, out)
	return out
}

func (x *Exec) storeLoc(st *State, t types.Type, loc Loc, vals []*Term) {
	if arr, ok := t.Underlying().(*types.Array); ok {
		id := x.fieldArrID(loc)
		x.storeArrayValue(st, arr, id, vals)
		return
	}
	ls := x.leaves(t)
	for i, l := range ls {
		cls := loc.Class + l.Path
		h := x.heapGet(st, cls, x.locArraySort(len(loc.Idx), l.Sort))
		x.heapSet(st, cls, x.storeNested(h, loc.Idx, vals[i]))
	}
}

func (x *Exec) storeNested(h *Term, idx []*Term, v *Term) *Term {
	if len(idx) == 0 {
		return v
	}
	if len(idx) == 1 {
		return x.tb.Store(h, idx[0], v)
	}
	inner := x.tb.Select(h, idx[0])
	return x.tb.Store(h, idx[0], x.storeNested(inner, idx[1:], v))
}

func (x *Exec) fieldArrID(loc Loc) *Term {
	name := "fa:" + loc.Class
	if len(loc.Idx) == 0 {
		return x.tb.UF(name, x.tb.BV(64))
	}
	r := x.tb.UF(name, x.tb.BV(64), loc.Idx...)
	x.addRefAxioms(name, r, loc.Idx)
	return r
}

func elemClass(elemT types.Type) string { return "e:" + typeKey(elemT) }

func (x *Exec) loadArrayValue(st *State, arr *types.Array, id *Term) []*Term {
	et := arr.Elem()
	if _, ok := isStruct(et); ok {
		// arrays of structs as values: not modelled precisely
		return x.freshVal(arr, "arrval").L
	}
	ls := x.leaves(et)
	out := make([]*Term, len(ls))
	for i, l := range ls {
		h := x.heapGet(st, elemClass(et)+l.Path, x.locArraySort(2, l.Sort))
		out[i] = x.tb.Select(h, id)
	}
	return out
}

func (x *Exec) storeArrayValue(st *State, arr *types.Array, id *Term, vals []*Term) {
	et := arr.Elem()
	if _, ok := isStruct(et); ok {
		x.havocAll(st)
		return
	}
	ls := x.leaves(et)
	for i, l := range ls {
		cls := elemClass(et) + l.Path
		h := x.heapGet(st, cls, x.locArraySort(2, l.Sort))
		x.heapSet(st, cls, x.tb.Store(h, id, vals[i]))
	}
}

// assumeWF adds the facts every Go value of type t satisfies (slice header sanity).
func (x *Exec) assumeWF(st *State, t types.Type, l []*Term) {
	if st == nil {
		return
	}
	switch u := t.Underlying().(type) {
	case *types.Slice:
		x.assume(st, x.sliceWF(l[0], l[1], l[2], l[3]))
	case *types.Interface:
		z := x.tb.BVInt(0, 64)
		x.assume(st, x.tb.Implies(x.tb.Eq(l[0], z), x.tb.Eq(l[1], z)))
	case *types.Basic:
		if u.Kind() == types.String {
			z := x.tb.BVInt(0, 64)
			lim := x.tb.BVInt(1<<40, 64)
			x.assume(st, x.tb.And(x.tb.SLe(z, l[1]), x.tb.SLe(z, l[2]), x.tb.SLe(l[1], lim), x.tb.SLe(l[2], lim)))
		}
	case *types.Struct:
		off := 0
		for i := 0; i < u.NumFields(); i++ {
			n := x.nleaves(u.Field(i).Type())
			x.assumeWF(st, u.Field(i).Type(), l[off:off+n])
			off += n
		}
	}
}

func (x *Exec) sliceWF(arr, off, ln, cp *Term) *Term {
	z := x.tb.BVInt(0, 64)
	lim := x.tb.BVInt(1<<48, 64) // amd64 address space: no Go slice is longer than 2^48
	return x.tb.And(
		x.tb.SLe(z, off), x.tb.SLe(z, ln), x.tb.SLe(ln, cp), x.tb.SLe(cp, lim), x.tb.SLe(off, lim),
		x.tb.Implies(x.tb.Eq(arr, z), x.tb.Eq(cp, z)),
	)
}

// ---------- pointers

func (x *Exec) ptrToObj(t types.Type, ref *Term) Val { // t = pointer type
	return Val{T: t, L: []*Term{ref}, Ptr: &PtrInfo{Kind: PObj, T: t.Underlying().(*types.Pointer).Elem()}}
}

// regPtr remembers what a pointer value (a unique address term) points to, so that the information
// survives a trip through a variable or a closure.
func (x *Exec) regPtr(v Val) Val {
	if v.Ptr != nil && len(v.L) > 0 && !v.L[0].hasBnd {
		if x.ptrTab == nil {
			x.ptrTab = map[int]*PtrInfo{}
		}
		x.ptrTab[v.L[0].ID] = v.Ptr
	}
	return v
}

// ptrInfoOf recovers address information for a pointer value.
func (x *Exec) ptrInfoOf(v Val) *PtrInfo {
	if v.Ptr != nil {
		return v.Ptr
	}
	if len(v.L) > 0 && x.ptrTab != nil {
		if pi, ok := x.ptrTab[v.L[0].ID]; ok {
			return pi // address information survives a trip through a variable
		}
	}
	if p, ok := v.T.Underlying().(*types.Pointer); ok {
		if _, ok := isStruct(p.Elem()); ok {
			return &PtrInfo{Kind: PObj, T: p.Elem()}
		}
		// a pointer to a named slice type (the *multiSegmentArena, *singleSegmentArena receivers):
		// the same box class that `new(T)` uses, so that a value stored through the pointer by one
		// function is what a load through it yields later.  Assumes such a pointer never points into
		// a struct field or an array element of that named type (there is none in this code base).
		if nt, ok := p.Elem().(*types.Named); ok && len(v.L) > 0 {
			if _, ok := nt.Underlying().(*types.Slice); ok {
				return &PtrInfo{Kind: PLoc, T: p.Elem(), Loc: Loc{Class: "b:" + typeKey(p.Elem()), Idx: []*Term{v.L[0]}}}
			}
		}
		return &PtrInfo{Kind: POpaque, T: p.Elem()}
	}
	return &PtrInfo{Kind: POpaque}
}

func (x *Exec) load(fr *Frame, st *State, pv Val, instr ssa.Instruction) Val {
	pi := x.ptrInfoOf(pv)
	t := pi.T
	switch pi.Kind {
	case PObj:
		x.oblNil(fr, st, pv.L[0], instr)
		return Val{T: t, L: x.loadStructAt(st, t, pv.L[0])}
	case PLocal:
		c := st.cells[pi.Cell]
		if c == nil {
			return x.freshVal(t, "deadcell")
		}
		n := x.nleaves(t)
		out := make([]*Term, n)
		copy(out, c[pi.Off:pi.Off+n])
		return Val{T: t, L: out}
	case PLoc:
		if len(pi.Loc.Idx) > 0 && strings.HasPrefix(pi.Loc.Class, "f:") {
			x.oblNil(fr, st, pi.Loc.Idx[0], instr)
		}
		return Val{T: t, L: x.loadLoc(st, t, pi.Loc)}
	case PArrObj:
		if arr, ok := t.Underlying().(*types.Array); ok {
			return Val{T: t, L: x.loadArrayValue(st, arr, pi.Arr)}
		}
	}
	x.note("load through opaque pointer of type %s in %s", pv.T, fr.fn.Name())
	v := x.freshVal(t, "opq")
	x.assumeWF(st, t, v.L)
	return v
}

func (x *Exec) store(fr *Frame, st *State, pv Val, v Val, instr ssa.Instruction) {
	pi := x.ptrInfoOf(pv)
	t := pi.T
	switch pi.Kind {
	case PObj:
		x.oblNil(fr, st, pv.L[0], instr)
		x.storeStructAt(st, t, pv.L[0], v.L)
		return
	case PLocal:
		c := st.cells[pi.Cell]
		if c == nil {
			return
		}
		nc := make([]*Term, len(c))
		copy(nc, c)
		copy(nc[pi.Off:], v.L)
		st.cells[pi.Cell] = nc
		return
	case PLoc:
		if len(pi.Loc.Idx) > 0 && strings.HasPrefix(pi.Loc.Class, "f:") {
			x.oblNil(fr, st, pi.Loc.Idx[0], instr)
		}
		x.storeLoc(st, t, pi.Loc, v.L)
		return
	case PArrObj:
		if arr, ok := t.Underlying().(*types.Array); ok {
			x.storeArrayValue(st, arr, pi.Arr, v.L)
			return
		}
	}
	x.note("store through opaque pointer of type %s: heap havoc", pv.T)
	x.havocAll(st)
}

// fieldAddr computes &p.f
func (x *Exec) fieldAddr(fr *Frame, st *State, pv Val, field int, instr ssa.Instruction) Val {
	pi := x.ptrInfoOf(pv)
	stT, ok := pi.T.Underlying().(*types.Struct)
	resT := instr.(ssa.Value).Type()
	if !ok {
		return Val{T: resT, L: []*Term{x.tb.Fresh("fa", x.tb.BV(64))}, Ptr: &PtrInfo{Kind: POpaque, T: resT.Underlying().(*types.Pointer).Elem()}}
	}
	ft := stT.Field(field).Type()
	switch pi.Kind {
	case PLocal:
		off, _ := x.fieldRange(stT, field)
		return Val{T: resT, L: []*Term{x.tb.BVInt(1, 64)}, Ptr: &PtrInfo{Kind: PLocal, T: ft, Cell: pi.Cell, Off: pi.Off + off}}
	case PObj:
		ref := pv.L[0]
		x.oblNil(fr, st, ref, instr)
		if _, ok := isStruct(ft); ok {
			return Val{T: resT, L: []*Term{x.interior(pi.T, field, ref)}, Ptr: &PtrInfo{Kind: PObj, T: ft}}
		}
		loc := Loc{structClass(pi.T, field), []*Term{ref}}
		return x.regPtr(Val{T: resT, L: []*Term{x.tb.UF("addr:"+loc.Class, x.tb.BV(64), ref)}, Ptr: &PtrInfo{Kind: PLoc, T: ft, Loc: loc}})
	}
	return Val{T: resT, L: []*Term{x.tb.Fresh("fa", x.tb.BV(64))}, Ptr: &PtrInfo{Kind: POpaque, T: ft}}
}
