package main

// Value representation: every Go value is a flat list of SMT leaves determined by its type.

import (
	"fmt"
	"go/types"
	"regexp"
	"strings"
	"sync"

	"golang.org/x/tools/go/ssa"
)

const mathW = 80 // width of the mathematical-integer type M

type LeafKind int

const (
	LInt LeafKind = iota
	LBool
	LRef   // object reference / array id / map / chan / func : BV64
	LFloat // uninterpreted bit pattern
	LArr   // SMT array leaf (Go array values)
)

type LeafInfo struct {
	Path   string
	Sort   *Sort
	Kind   LeafKind
	Signed bool
}

type PtrKind int

const (
	PNone   PtrKind = iota
	PObj            // pointer to a struct object: leaf is the ref
	PLocal          // pointer to (part of) a local cell
	PLoc            // pointer to a non-struct heap location
	PArrObj         // pointer to an array stored in the element heaps (Arr id)
	POpaque         // unknown
)

// Loc is a non-struct heap location: a class key plus index terms.
type Loc struct {
	Class string
	Idx   []*Term // 1 (field of object ref) or 2 (arr, idx) or 0 (global)
}

type cellKey struct {
	fr int
	a  *ssa.Alloc
}

type PtrInfo struct {
	Kind PtrKind
	T    types.Type // pointee type
	Cell cellKey    // PLocal
	Off  int        // PLocal: leaf offset inside the cell
	Loc  Loc        // PLoc
	Arr  *Term      // PArrObj
	Base *Term      // PArrObj on slice base offset (always 0 for arrays)
}

type ClosureInfo struct {
	Fn       *ssa.Function
	Bindings []Val
}

type Val struct {
	T   types.Type
	L   []*Term
	Ptr *PtrInfo     // for pointer-typed values with a known symbolic address
	Clo *ClosureInfo // for function values with a statically known target
	Str *string      // string literal (for spec built-ins taking names)
	// For struct values containing pointers with known address info, the info is lost
	// (only the ref leaf survives), which is sound: PObj pointers are recovered from the leaf.
}

func isM(t types.Type) bool {
	n, ok := t.(*types.Named)
	if !ok {
		return false
	}
	if n.Obj().Name() != "M" || n.Obj().Pkg() == nil {
		return false
	}
	b, ok := n.Underlying().(*types.Basic)
	return ok && b.Kind() == types.Int64 && strings.HasPrefix(n.Obj().Pkg().Path(), modulePath)
}

func (x *Exec) intSort(t types.Type) (*Sort, bool, bool) { // sort, signed, ok
	if isM(t) {
		return x.tb.BV(mathW), true, true
	}
	b, ok := t.Underlying().(*types.Basic)
	if !ok {
		return nil, false, false
	}
	switch b.Kind() {
	case types.Int8:
		return x.tb.BV(8), true, true
	case types.Int16:
		return x.tb.BV(16), true, true
	case types.Int32, types.UntypedRune:
		return x.tb.BV(32), true, true
	case types.Int64, types.Int, types.UntypedInt:
		return x.tb.BV(64), true, true
	case types.Uint8:
		return x.tb.BV(8), false, true
	case types.Uint16:
		return x.tb.BV(16), false, true
	case types.Uint32:
		return x.tb.BV(32), false, true
	case types.Uint64, types.Uint, types.Uintptr:
		return x.tb.BV(64), false, true
	}
	return nil, false, false
}

var byteRe = regexp.MustCompile(`\bbyte\b`)
var runeRe = regexp.MustCompile(`\brune\b`)
var typeKeyCache sync.Map

func typeKey(t types.Type) string {
	if v, ok := typeKeyCache.Load(t); ok {
		return v.(string)
	}
	s := types.TypeString(t, func(p *types.Package) string { return p.Path() })
	s = byteRe.ReplaceAllString(s, "uint8")
	s = runeRe.ReplaceAllString(s, "int32")
	typeKeyCache.Store(t, s)
	return s
}

func (x *Exec) leaves(t types.Type) []LeafInfo {
	k := typeKey(t)
	if l, ok := x.leafCache[k]; ok {
		return l
	}
	var out []LeafInfo
	bv64 := x.tb.BV(64)
	if s, signed, ok := x.intSort(t); ok {
		out = []LeafInfo{{"", s, LInt, signed}}
		x.leafCache[k] = out
		return out
	}
	switch u := t.Underlying().(type) {
	case *types.Basic:
		switch {
		case u.Info()&types.IsBoolean != 0:
			out = []LeafInfo{{"", x.tb.Bool, LBool, false}}
		case u.Kind() == types.String || u.Kind() == types.UntypedString:
			out = []LeafInfo{{"#arr", bv64, LRef, false}, {"#off", bv64, LInt, true}, {"#len", bv64, LInt, true}}
		case u.Kind() == types.Float32:
			out = []LeafInfo{{"", x.tb.BV(32), LFloat, false}}
		case u.Kind() == types.Float64 || u.Kind() == types.UntypedFloat:
			out = []LeafInfo{{"", x.tb.BV(64), LFloat, false}}
		case u.Kind() == types.UnsafePointer:
			out = []LeafInfo{{"", bv64, LRef, false}}
		case u.Kind() == types.UntypedNil:
			out = []LeafInfo{{"", bv64, LRef, false}}
		default: // complex etc: opaque
			out = []LeafInfo{{"", bv64, LFloat, false}}
		}
	case *types.Pointer, *types.Map, *types.Chan, *types.Signature:
		out = []LeafInfo{{"", bv64, LRef, false}}
	case *types.Slice:
		out = []LeafInfo{{"#arr", bv64, LRef, false}, {"#off", bv64, LInt, true}, {"#len", bv64, LInt, true}, {"#cap", bv64, LInt, true}}
	case *types.Interface:
		out = []LeafInfo{{"#tag", bv64, LInt, false}, {"#val", bv64, LRef, false}}
	case *types.Struct:
		for i := 0; i < u.NumFields(); i++ {
			f := u.Field(i)
			for _, l := range x.leaves(f.Type()) {
				out = append(out, LeafInfo{"." + f.Name() + l.Path, l.Sort, l.Kind, l.Signed})
			}
		}
	case *types.Tuple:
		for i := 0; i < u.Len(); i++ {
			for _, l := range x.leaves(u.At(i).Type()) {
				out = append(out, LeafInfo{fmt.Sprintf("$%d%s", i, l.Path), l.Sort, l.Kind, l.Signed})
			}
		}
	case *types.Array:
		for _, l := range x.leaves(u.Elem()) {
			out = append(out, LeafInfo{"[]" + l.Path, x.tb.Array(bv64, l.Sort), LArr, false})
		}
	default:
		out = []LeafInfo{{"", bv64, LRef, false}}
	}
	x.leafCache[k] = out
	return out
}

func (x *Exec) nleaves(t types.Type) int { return len(x.leaves(t)) }

// fieldRange returns the leaf offset and count of field i in struct type st.
func (x *Exec) fieldRange(st *types.Struct, i int) (int, int) {
	off := 0
	for j := 0; j < i; j++ {
		off += x.nleaves(st.Field(j).Type())
	}
	return off, x.nleaves(st.Field(i).Type())
}

func (x *Exec) tupleRange(tt *types.Tuple, i int) (int, int) {
	off := 0
	for j := 0; j < i; j++ {
		off += x.nleaves(tt.At(j).Type())
	}
	return off, x.nleaves(tt.At(i).Type())
}

// zero value
func (x *Exec) zero(t types.Type) Val {
	ls := x.leaves(t)
	v := Val{T: t, L: make([]*Term, len(ls))}
	for i, l := range ls {
		v.L[i] = x.zeroLeaf(l)
	}
	return v
}

func (x *Exec) zeroLeaf(l LeafInfo) *Term {
	switch l.Sort.Kind {
	case SBool:
		return x.tb.False
	case SBV:
		return x.tb.BVInt(0, l.Sort.W)
	default:
		return x.tb.ConstArray(l.Sort, x.zeroOfSort(l.Sort.Elem))
	}
}

func (x *Exec) zeroOfSort(s *Sort) *Term {
	switch s.Kind {
	case SBool:
		return x.tb.False
	case SBV:
		return x.tb.BVInt(0, s.W)
	default:
		return x.tb.ConstArray(s, x.zeroOfSort(s.Elem))
	}
}

// fresh (unconstrained) value
func (x *Exec) freshVal(t types.Type, hint string) Val {
	ls := x.leaves(t)
	v := Val{T: t, L: make([]*Term, len(ls))}
	for i, l := range ls {
		v.L[i] = x.tb.Fresh(hint+l.Path, l.Sort)
	}
	return v
}

func isStruct(t types.Type) (*types.Struct, bool) {
	s, ok := t.Underlying().(*types.Struct)
	return s, ok
}

func isPointerToStruct(t types.Type) (types.Type, bool) {
	p, ok := t.Underlying().(*types.Pointer)
	if !ok {
		return nil, false
	}
	if _, ok := p.Elem().Underlying().(*types.Struct); ok {
		return p.Elem(), true
	}
	return nil, false
}

// structClass is the heap class prefix for field i of struct type t.
func structClass(t types.Type, i int) string {
	st := t.Underlying().(*types.Struct)
	return "f:" + typeKey(t) + "." + st.Field(i).Name()
}

func shortTypeName(t types.Type) string {
	s := types.TypeString(t, func(p *types.Package) string { return p.Name() })
	return s
}
