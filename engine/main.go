package main

import (
	"flag"
	"fmt"
	"os"
	"regexp"
	"sort"
	"strings"
	"time"
)

func main() {
	if len(os.Args) < 2 {
		fmt.Fprintln(os.Stderr, "usage: govc <units|check|replay|selftest> ...")
		os.Exit(2)
	}
	switch os.Args[1] {
	case "units":
		cmdUnits(os.Args[2:])
	case "check":
		cmdCheck(os.Args[2:])
	case "replay":
		// replay <file>: show the stored violation record (obligation, solver verdict, model or
		// solver output).  Re-running the obligation is `check --property <id>`; replays on the
		// compiled code are the hand-written tests in /verif/replay_tests (DESIGN 10.1).
		if len(os.Args) < 3 {
			fmt.Fprintln(os.Stderr, "usage: govc replay <file>")
			os.Exit(2)
		}
		data, err := os.ReadFile(os.Args[2])
		if err != nil {
			fmt.Fprintln(os.Stderr, err)
			os.Exit(2)
		}
		os.Stdout.Write(data)
	default:
		fmt.Fprintln(os.Stderr, "unknown command")
		os.Exit(2)
	}
}

func defaultConfig() *Config {
	return &Config{InlineDepth: 6, InlineSize: 400, TimeoutMs: 20000}
}

// cmdUnits: development mode — verify selected units and print every obligation.
func cmdUnits(args []string) {
	fs := flag.NewFlagSet("units", flag.ExitOnError)
	pk := fs.String("pkg", ".", "comma-separated package patterns relative to the repo")
	fre := fs.String("func", ".*", "regexp on unit names")
	dump := fs.String("dump", "", "directory for SMT queries")
	to := fs.Int("timeout", 20000, "per-query timeout ms")
	verbose := fs.Bool("v", false, "verbose")
	covers := fs.Bool("covers", false, "advisory reachability check of every return (dead code / vacuity)")
	nosolve := fs.Bool("nosolve", false, "generate only")
	fs.StringVar(&repoDir, "repo", repoDir, "repository directory")
	fs.Parse(args)
	cfg := defaultConfig()
	cfg.DumpDir = *dump
	cfg.TimeoutMs = *to
	cfg.Verbose = *verbose
	cfg.CoverReturns = *covers
	t0 := time.Now()
	var pats []string
	for _, p := range strings.Split(*pk, ",") {
		pats = append(pats, "./"+strings.TrimPrefix(p, "./"))
	}
	ld, err := Load(pats)
	if err != nil {
		fmt.Fprintln(os.Stderr, "LOAD ERROR:", err)
		os.Exit(2)
	}
	fmt.Printf("loaded in %.1fs\n", time.Since(t0).Seconds())
	for _, lp := range ld.Order {
		for k, r := range lp.Drift {
			fmt.Printf("DRIFT %s.%s: %s\n", lp.Name, k, r)
		}
	}
	re := regexp.MustCompile(*fre)
	var results []*UnitResult
	for _, lp := range ld.Order {
		var keys []string
		for k := range lp.Units {
			keys = append(keys, k)
		}
		sort.Strings(keys)
		for _, k := range keys {
			u := lp.Units[k]
			name := lp.Name + "." + k
			if !re.MatchString(name) {
				continue
			}
			results = append(results, VerifyUnit(ld, u, cfg))
		}
		for _, l := range lp.Lemmas {
			if re.MatchString(lp.Name + ".lemma." + l.L.Name) {
				results = append(results, VerifyLemma(ld, lp, l, cfg))
			}
		}
	}
	var all []*Obligation
	for _, r := range results {
		all = append(all, r.Obls...)
	}
	fmt.Printf("generated %d obligations in %.1fs\n", len(all), time.Since(t0).Seconds())
	if !*nosolve {
		Discharge(all, cfg, 12)
	}
	bad := 0
	for _, r := range results {
		if r.Trusted {
			fmt.Printf("== %s: TRUSTED (assumed)\n", r.Unit)
			continue
		}
		if r.Inlined {
			continue
		}
		if r.Err != "" {
			fmt.Printf("== %s: ENGINE ERROR: %s\n", r.Unit, r.Err)
			bad++
			continue
		}
		fmt.Printf("== %s: %d obligations (gen %.2fs)\n", r.Unit, len(r.Obls), r.GenTime)
		for _, o := range r.Obls {
			mark := "ok  "
			if o.Status != "discharged" {
				mark = "FAIL"
				bad++
			}
			if strings.Contains(o.Res.Solver, "(UNREACHABLE)") {
				mark = "WARN"
			}
			if *verbose || o.Status != "discharged" || mark == "WARN" {
				fmt.Printf("   %s %-10s %s  [%s %s %.2fs %dB] %s\n", mark, o.Status, o.Name, o.Res.Solver, o.Res.Status, o.Res.Time, o.QuerySz, o.Pos)
				if o.Diag != "" {
					fmt.Printf("      diag:%s\n", o.Diag)
				}
				if o.Status == "failed" && *verbose {
					fmt.Printf("      model: %s\n", strings.Join(strings.Fields(modelOf(o.Res.Output)), " "))
				}
			}
		}
		if *verbose {
			for _, n := range r.Notes {
				fmt.Printf("   note: %s\n", n)
			}
			for _, n := range r.Assumed {
				fmt.Printf("   assumed: %s\n", n)
			}
		}
	}
	if os.Getenv("GOVC_HOGS") != "" {
		type hog struct {
			name string
			t    float64
			n    int
		}
		var hs []hog
		for _, o := range all {
			sum := 0.0
			for _, tr := range o.Res.Tried {
				p := strings.Split(tr, ":")
				var f float64
				fmt.Sscanf(strings.TrimSuffix(p[len(p)-1], "s"), "%f", &f)
				sum += f
			}
			hs = append(hs, hog{o.Name, sum, len(o.Res.Tried)})
		}
		sort.Slice(hs, func(i, j int) bool { return hs[i].t > hs[j].t })
		for i := 0; i < len(hs) && i < 25; i++ {
			fmt.Printf("hog %7.1fs %3d tries %s\n", hs[i].t, hs[i].n, hs[i].name)
		}
	}
	fmt.Printf("total %d obligations, %d not discharged, %.1fs\n", len(all), bad, time.Since(t0).Seconds())
	if bad > 0 {
		os.Exit(1)
	}
}


func modelOf(out string) string {
	i := strings.Index(out, "\n")
	if i < 0 {
		return ""
	}
	s := out[i+1:]
	if len(s) > 3000 {
		s = s[:3000]
	}
	return s
}
