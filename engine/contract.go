package main

// Contract files: comment-only Go files (`//go:build verif`) whose `//@` lines carry
// the contracts.  Grammar (one directive per line; a line that does not start with a
// keyword continues the previous directive):
//
//	//@ import "io"
//	//@ spec                       -- raw Go declarations (spec functions) until `end`
//	//@   func sOff(w rawPointer) int32 { ... }
//	//@ end
//	//@ func Segment.readPtr -> ptr, err        -- method of (*)Segment; result names
//	//@   props C01 C03                          -- default property tags for clauses
//	//@   requires <go bool expr>
//	//@   old len0 int = len(s.data)
//	//@   ensures [C03] <go bool expr>
//	//@   inline | trusted | strict | noinline | pure
//	//@   modifies nothing | <class> ...
//	//@   loop 0 "i < end"
//	//@     invariant <expr>
//	//@     decreases <expr>
//	//@ lemma name: <closed bool expr>
//	//@ axiom name: <closed bool expr>

import (
	"fmt"
	"os"
	"regexp"
	"strconv"
	"strings"
)

type Clause struct {
	Expr  string
	Props []string // property tags; empty = function default
	Line  int
	Label string // optional label: ensures depth: expr
}

type OldDef struct {
	Name, Type, Expr string
	Line             int
}

type LoopContract struct {
	Ordinal    int
	CondText   string
	Of         int // number of loops the function had when the contract was written (0 = not recorded)
	Invariants []Clause
	Decreases  string
	Line       int
}

type AssertContract struct {
	Snap     string // non-empty: not an assertion but a named snapshot of an expression's value at the point
	SnapType string
	When   string // "before" or "after"
	Anchor string // statement text (prefix, whitespace-squeezed)
	Clause Clause
	Line   int
}

type FuncContract struct {
	Steps    []Clause // predicates over (old64, new64) every atomic read-modify-write in the body must satisfy
	Asserts  []*AssertContract
	Extern   bool // contract on a function of another module (assumed)
	Lossless bool // narrowing integer conversions in the body must not lose information
	Key       string // "Segment.readPtr", "alloc", "Conn.receive$1"
	ResNames  []string
	Props     []string
	Requires  []Clause
	Ensures   []Clause
	Assumes   []Clause // postconditions handed to callers but not proved (listed as assumptions)
	Olds      []OldDef
	Loops     []*LoopContract
	Inline    bool
	NoInline  bool
	Trusted   bool // body not verified (assumed contract); listed in evidence
	Strict    bool // slice expressions in the body must stay within len (not cap)
	LockState bool // track the lock typestate (held/not held) in this function although the package's locks are not modelled
	PartialKinds []string // obligation kinds kept by a partial contract besides assertions, covers and invariants
	Partial   bool // only the listed assertions (and covers) are obligations: the function is not otherwise verified
	Modifies  []string
	HasMod    bool
	Line      int
	Iface     bool // contract on an interface method (assumed)
	NoHavocOK bool
}

type Lemma struct {
	Name  string
	Expr  string
	Axiom bool
	Props []string
	Line  int
}

type ContractFile struct {
	Path    string
	Source  string // "repo" or "mirror"
	Imports []string
	Options map[string]bool
	Spec    string // raw Go declarations
	Funcs   []*FuncContract
	Lemmas  []*Lemma
}

var kwRe = regexp.MustCompile(`^(import|option|spec|end|func|extern|props|requires|ensures|assumes|old|inline|noinline|trusted|strict|partial|locktypestate|pure|modifies|loop|invariant|decreases|assert|snap|lossless|atomic-step|lemma|axiom|iface)\b`)
var tagRe = regexp.MustCompile(`^\[([A-Za-z0-9_, ]+)\]\s*`)
var labelRe = regexp.MustCompile(`^([a-zA-Z_][a-zA-Z0-9_]*):\s+`)

func ParseContractFile(path, source string) (*ContractFile, error) {
	data, err := os.ReadFile(path)
	if err != nil {
		return nil, err
	}
	cf := &ContractFile{Path: path, Source: source}
	lines := strings.Split(string(data), "\n")
	type dir struct {
		kw, rest string
		line     int
	}
	var dirs []dir
	inSpec := false
	var spec strings.Builder
	for i, ln := range lines {
		t := strings.TrimSpace(ln)
		if !strings.HasPrefix(t, "//@") {
			continue
		}
		body := strings.TrimPrefix(t, "//@")
		if strings.HasPrefix(body, " ") {
			body = body[1:]
		}
		tb := strings.TrimSpace(body)
		if inSpec {
			if tb == "end" {
				inSpec = false
				continue
			}
			spec.WriteString(body)
			spec.WriteByte('\n')
			continue
		}
		if tb == "" || strings.HasPrefix(tb, "--") {
			continue
		}
		if tb == "spec" {
			inSpec = true
			continue
		}
		if m := kwRe.FindString(tb); m != "" {
			dirs = append(dirs, dir{m, strings.TrimSpace(tb[len(m):]), i + 1})
		} else {
			if len(dirs) == 0 {
				return nil, fmt.Errorf("%s:%d: continuation without directive", path, i+1)
			}
			dirs[len(dirs)-1].rest += " " + tb
		}
	}
	if inSpec {
		return nil, fmt.Errorf("%s: unterminated spec block", path)
	}
	cf.Spec = spec.String()
	var cur *FuncContract
	var curLoop *LoopContract
	stripTrail := func(s string) string { // strip trailing `-- comment`
		if i := strings.Index(s, " -- "); i >= 0 {
			s = s[:i]
		}
		return strings.TrimSpace(s)
	}
	parseClause := func(rest string, line int) Clause {
		c := Clause{Line: line}
		rest = stripTrail(rest)
		if m := tagRe.FindStringSubmatch(rest); m != nil {
			for _, p := range strings.FieldsFunc(m[1], func(r rune) bool { return r == ',' || r == ' ' }) {
				c.Props = append(c.Props, p)
			}
			rest = rest[len(m[0]):]
		}
		if m := labelRe.FindStringSubmatch(rest); m != nil && !strings.HasPrefix(rest, "func") {
			c.Label = m[1]
			rest = rest[len(m[0]):]
		}
		c.Expr = rest
		return c
	}
	for _, d := range dirs {
		switch d.kw {
		case "import":
			cf.Imports = append(cf.Imports, strings.Trim(stripTrail(d.rest), `"`))
		case "option":
			if cf.Options == nil {
				cf.Options = map[string]bool{}
			}
			for _, o := range strings.Fields(stripTrail(d.rest)) {
				cf.Options[o] = true
			}
		case "func", "iface", "extern":
			rest := stripTrail(d.rest)
			fc := &FuncContract{Line: d.line, Iface: d.kw == "iface", Extern: d.kw == "extern"}
			if i := strings.Index(rest, "->"); i >= 0 {
				for _, n := range strings.Split(rest[i+2:], ",") {
					fc.ResNames = append(fc.ResNames, strings.TrimSpace(n))
				}
				rest = strings.TrimSpace(rest[:i])
			}
			fc.Key = rest
			cf.Funcs = append(cf.Funcs, fc)
			cur = fc
			curLoop = nil
		case "lemma", "axiom":
			rest := stripTrail(d.rest)
			l := &Lemma{Axiom: d.kw == "axiom", Line: d.line}
			if m := tagRe.FindStringSubmatch(rest); m != nil {
				l.Props = strings.FieldsFunc(m[1], func(r rune) bool { return r == ',' || r == ' ' })
				rest = rest[len(m[0]):]
			}
			i := strings.Index(rest, ":")
			if i < 0 {
				return nil, fmt.Errorf("%s:%d: lemma needs `name: expr`", path, d.line)
			}
			l.Name = strings.TrimSpace(rest[:i])
			l.Expr = strings.TrimSpace(rest[i+1:])
			cf.Lemmas = append(cf.Lemmas, l)
			cur = nil
		default:
			if cur == nil {
				return nil, fmt.Errorf("%s:%d: %s outside func block", path, d.line, d.kw)
			}
			switch d.kw {
			case "props":
				cur.Props = strings.FieldsFunc(stripTrail(d.rest), func(r rune) bool { return r == ',' || r == ' ' })
			case "requires":
				cur.Requires = append(cur.Requires, parseClause(d.rest, d.line))
			case "ensures":
				cur.Ensures = append(cur.Ensures, parseClause(d.rest, d.line))
			case "assumes":
				cur.Assumes = append(cur.Assumes, parseClause(d.rest, d.line))
			case "old":
				rest := stripTrail(d.rest)
				i := strings.Index(rest, "=")
				if i < 0 {
					return nil, fmt.Errorf("%s:%d: old needs `name type = expr`", path, d.line)
				}
				hd := strings.Fields(rest[:i])
				if len(hd) < 2 {
					return nil, fmt.Errorf("%s:%d: old needs `name type = expr`", path, d.line)
				}
				cur.Olds = append(cur.Olds, OldDef{Name: hd[0], Type: strings.Join(hd[1:], " "), Expr: strings.TrimSpace(rest[i+1:]), Line: d.line})
			case "inline":
				cur.Inline = true
			case "noinline":
				cur.NoInline = true
			case "trusted":
				cur.Trusted = true
			case "strict":
				cur.Strict = true
			case "partial":
				cur.Partial = true
				cur.PartialKinds = strings.Fields(stripTrail(d.rest))
			case "locktypestate":
				cur.LockState = true
			case "pure":
				cur.HasMod = true
				cur.Modifies = nil
			case "modifies":
				cur.HasMod = true
				for _, f := range strings.Fields(stripTrail(d.rest)) {
					if f != "nothing" {
						cur.Modifies = append(cur.Modifies, f)
					}
				}
			case "loop":
				rest := stripTrail(d.rest)
				fs := strings.SplitN(rest, " ", 2)
				n, err := strconv.Atoi(fs[0])
				if err != nil {
					return nil, fmt.Errorf("%s:%d: loop needs ordinal", path, d.line)
				}
				curLoop = &LoopContract{Ordinal: n, Line: d.line}
				if len(fs) > 1 {
					r2 := strings.TrimSpace(fs[1])
					// optional `of N`: the function's loop count when the contract was written
					if strings.HasPrefix(r2, "of ") {
						g := strings.SplitN(strings.TrimSpace(r2[3:]), " ", 2)
						if m, err := strconv.Atoi(g[0]); err == nil {
							curLoop.Of = m
						}
						r2 = ""
						if len(g) > 1 {
							r2 = strings.TrimSpace(g[1])
						}
					}
					curLoop.CondText = strings.Trim(r2, `"`)
				}
				cur.Loops = append(cur.Loops, curLoop)
			case "lossless":
				cur.Lossless = true
			case "atomic-step":
				cur.Steps = append(cur.Steps, parseClause(d.rest, d.line))
			case "assert", "snap":
				rest := stripTrail(d.rest)
				fs := strings.SplitN(rest, " ", 2)
				if len(fs) != 2 || (fs[0] != "before" && fs[0] != "after" && fs[0] != "in") {
					return nil, fmt.Errorf("%s:%d: assert needs before|after \"stmt\" expr", path, d.line)
				}
				r2 := strings.TrimSpace(fs[1])
				if !strings.HasPrefix(r2, `"`) {
					return nil, fmt.Errorf("%s:%d: assert needs a quoted statement anchor", path, d.line)
				}
				j := strings.Index(r2[1:], `"`)
				if j < 0 {
					return nil, fmt.Errorf("%s:%d: unterminated anchor", path, d.line)
				}
				ac := &AssertContract{When: fs[0], Anchor: r2[1 : 1+j], Line: d.line}
				body := strings.TrimSpace(r2[2+j:])
				if d.kw == "snap" {
					// snap before "stmt" name type: expr
					k := strings.Index(body, ":")
					hd := strings.Fields(body[:max(k, 0)])
					if k < 0 || len(hd) != 2 {
						return nil, fmt.Errorf("%s:%d: snap needs before|after \"stmt\" name type: expr", path, d.line)
					}
					ac.Snap, ac.SnapType = hd[0], hd[1]
					ac.Clause = Clause{Expr: strings.TrimSpace(body[k+1:]), Line: d.line}
				} else {
					ac.Clause = parseClause(body, d.line)
				}
				cur.Asserts = append(cur.Asserts, ac)
			case "invariant":
				if curLoop == nil {
					return nil, fmt.Errorf("%s:%d: invariant outside loop", path, d.line)
				}
				curLoop.Invariants = append(curLoop.Invariants, parseClause(d.rest, d.line))
			case "decreases":
				if curLoop == nil {
					return nil, fmt.Errorf("%s:%d: decreases outside loop", path, d.line)
				}
				curLoop.Decreases = stripTrail(d.rest)
			}
		}
	}
	return cf, nil
}
