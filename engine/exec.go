package main

import (
	"os"
	"fmt"
	"go/ast"
	"go/constant"
	"go/token"
	"go/types"
	"math/big"
	"sort"
	"strings"
	"sync"

	"golang.org/x/tools/go/ssa"
)

type Obligation struct {
	Name    string
	Kind    string
	Func    string
	Anchor  string
	Props   []string
	Hyp     *Term // path condition (includes assumptions)
	Goal    *Term
	Cover   bool // must be SAT (vacuity guard)
	Tag      string // for a precondition obligation: the text of the callee's clause
	Advisory bool // cover whose refutation is reported but is not a failure (a return may be dead code)
	Pos     string
	Inputs  []*Term // terms whose model values are wanted on sat
	x       *Exec
	// results
	Status  string // discharged / failed / undecided
	Res     SolveResult
	QuerySz int
	Cross   string
	slice   bool
	noQuant bool
	Diag    string
}

type Config struct {
	InlineDepth int
	InlineSize  int
	TimeoutMs   int
	DumpDir     string
	Verbose     bool
	CoverReturns bool // advisory reachability check of every return of the function under contract
}

type Exec struct {
	ld        *Loaded
	tb        *TB
	cfg       *Config
	unit      *FuncUnit
	obls      []*Obligation
	facts     []*Term
	leafCache map[string][]LeafInfo
	classSort map[string]*Sort
	refAx     map[int]bool
	originID  map[string]int
	typeIDs   map[string]int
	epochN    int
	pendingN  int
	frameN    int
	oblCount  map[string]int
	notes     map[string]int
	entry     *State // state at entry of the unit (after requires)
	assumed   map[string]bool // assumptions used (trusted contracts, iface contracts, opaque calls)
	strConst  map[string]*Term
	top       *Frame
	curProps  []string
	mu        sync.Mutex
	fnInfos   map[*ssa.Function]*fnInfo
	effCache  map[*ssa.Function]*Effects
	autoCands []*autoCand
	atomicSteps []atomicStep
	inputs    []*Term
	curEffFn  *ssa.Function
	freshRefs map[int]bool
	immutable map[string]bool
	cbPrivate []string
	cbPrivateMap []string
	snaps     map[string]Val
	refAxQ    map[string]bool
	ptrTab    map[int]*PtrInfo // pointer value (term id) -> what it points to
	boxEsc    bool // a captured local (box) may have become reachable by other code
	epoch0    *Epoch
	topExits  []exitRec // return points of the function under contract (postconditions are checked per return)
	baseNow   map[int]*Term // heap variable (term id) -> allocation clock when its contents were established
	amap      *assertMap
}

type deferEntry struct {
	cond *Term
	call *ssa.CallCommon
	fr   *Frame
	pos  token.Pos
	args []Val
	fnv  Val
}

type Frame struct {
	id       int
	fn       *ssa.Function
	vals     map[ssa.Value]Val
	parent   *Frame
	depth    int
	spec     bool
	path     string // call path prefix for obligation names
	unit     *FuncUnit
	defers   []deferEntry
	strict   bool
	lossless bool
	lpkg     *LPkg
	oldVals  []Val // values of `old` definitions (unit frames)
	args     []Val
	bindings []Val
	oldState *State
}

func NewExec(ld *Loaded, cfg *Config) *Exec {
	x := &Exec{ld: ld, tb: NewTB(), cfg: cfg,
		leafCache: map[string][]LeafInfo{}, classSort: map[string]*Sort{}, refAx: map[int]bool{},
		originID: map[string]int{}, typeIDs: map[string]int{}, oblCount: map[string]int{}, notes: map[string]int{},
		assumed: map[string]bool{}, strConst: map[string]*Term{}, fnInfos: map[*ssa.Function]*fnInfo{}, effCache: map[*ssa.Function]*Effects{}, freshRefs: map[int]bool{}, baseNow: map[int]*Term{}}
	x.tb.known = func(a, b *Term) bool {
		// two different freshly allocated references never coincide; a fresh reference is not nil
		if a == b {
			return false
		}
		fa, fb := x.freshRefs[a.ID], x.freshRefs[b.ID]
		if fa && fb {
			return true
		}
		if (fa && b.Op == "bv" && b.Val.Sign() == 0) || (fb && a.Op == "bv" && a.Val.Sign() == 0) {
			return true
		}
		return false
	}
	return x
}

func (x *Exec) note(f string, a ...interface{}) {
	x.notes[fmt.Sprintf(f, a...)]++
}

func (x *Exec) newFrame(fn *ssa.Function, parent *Frame) *Frame {
	x.frameN++
	fr := &Frame{id: x.frameN, fn: fn, vals: map[ssa.Value]Val{}, parent: parent}
	if parent != nil {
		fr.depth = parent.depth + 1
		fr.spec = parent.spec
	}
	if fn.Pkg != nil {
		fr.lpkg = x.ld.Pkgs[fn.Pkg.Pkg.Path()]
	}
	if u, ok := x.ld.ByFn[fn]; ok && u.C.Strict {
		fr.strict = true
	}
	if u, ok := x.ld.ByFn[fn]; ok && u.C.Lossless {
		fr.lossless = true
	}
	return fr
}

// ---------- obligations

func (x *Exec) anchor(fr *Frame, instr ssa.Instruction) (string, string) {
	pos := token.NoPos
	if instr != nil {
		pos = instr.Pos()
	}
	var text string
	if fr.lpkg != nil && pos.IsValid() {
		if n := fr.lpkg.nodeAt(x.ld.Fset, pos); n != nil {
			text = squeeze(nodeText(x.ld.Fset, n))
		}
	}
	if text == "" && instr != nil {
		if v, ok := instr.(ssa.Value); ok {
			_ = v
		}
		text = fmt.Sprintf("%T", instr)
		text = strings.TrimPrefix(text, "*ssa.")
	}
	if len(text) > 60 {
		text = text[:60]
	}
	p := ""
	if pos.IsValid() {
		pp := x.ld.Fset.Position(pos)
		p = fmt.Sprintf("%s:%d", strings.TrimPrefix(pp.Filename, repoDir+"/"), pp.Line)
	}
	return text, p
}

func (x *Exec) addObl(fr *Frame, st *State, kind string, instr ssa.Instruction, anchorOverride string, goal *Term) {
	if fr != nil && fr.spec {
		return
	}
	if st.reach.IsFalse() {
		return
	}
	text, pos := "", ""
	if fr != nil {
		text, pos = x.anchor(fr, instr)
	}
	if anchorOverride != "" {
		text = anchorOverride
	}
	path := ""
	if fr != nil {
		path = fr.path
	}
	base := fmt.Sprintf("%s#%s:%s%s", x.unitName(), kind, path, text)
	n := x.oblCount[base]
	x.oblCount[base] = n + 1
	o := &Obligation{Name: fmt.Sprintf("%s@%d", base, n), Kind: kind, Func: x.unitName(), Anchor: text, Hyp: st.reach, Goal: goal, Pos: pos, Props: x.curProps}
	if goal.IsTrue() {
		o.Status = "discharged"
		o.Res = SolveResult{Status: "unsat", Solver: "simplifier"}
	}
	x.obls = append(x.obls, o)
}

func (x *Exec) unitName() string {
	if x.unit == nil {
		return "?"
	}
	return x.unit.Pkg.Name + "." + x.unit.Key
}

func (x *Exec) oblNil(fr *Frame, st *State, ref *Term, instr ssa.Instruction) {
	if strings.HasPrefix(ref.Op, "uf:in_") || strings.HasPrefix(ref.Op, "uf:el_") || strings.HasPrefix(ref.Op, "uf:fa_") {
		return // constructed refs are non-nil by axiom
	}
	if x.freshRefs[ref.ID] {
		return
	}
	x.addObl(fr, st, "nil", instr, "", x.nonNil(ref))
}

// ---------- constants

func (x *Exec) constVal(c *ssa.Const) Val {
	t := c.Type()
	if c.Value == nil { // zero value / nil
		return x.zero(t)
	}
	if s, _, ok := x.intSort(t); ok {
		v := constant.ToInt(c.Value)
		bi, _ := new(big.Int).SetString(v.ExactString(), 10)
		if bi == nil {
			bi = big.NewInt(0)
		}
		return Val{T: t, L: []*Term{x.tb.BVConst(bi, s.W)}}
	}
	b, _ := t.Underlying().(*types.Basic)
	if b != nil {
		switch {
		case b.Info()&types.IsBoolean != 0:
			return Val{T: t, L: []*Term{x.tb.BoolConst(constant.BoolVal(c.Value))}}
		case b.Info()&types.IsString != 0:
			s := constant.StringVal(c.Value)
			return x.stringConst(t, s)
		case b.Info()&types.IsFloat != 0:
			f, _ := constant.Float64Val(c.Value)
			w := 64
			if b.Kind() == types.Float32 {
				w = 32
			}
			if f == 0 {
				return Val{T: t, L: []*Term{x.tb.BVInt(0, w)}}
			}
			return Val{T: t, L: []*Term{x.tb.UF(fmt.Sprintf("fconst_%d_%x", w, []byte(c.Value.ExactString())), x.tb.BV(w))}}
		}
	}
	return x.freshVal(t, "const")
}

func (x *Exec) stringConst(t types.Type, s string) Val {
	bv64 := x.tb.BV(64)
	if s == "" {
		return Val{T: t, L: []*Term{x.tb.BVInt(0, 64), x.tb.BVInt(0, 64), x.tb.BVInt(0, 64)}}
	}
	arr, ok := x.strConst[s]
	if !ok {
		arr = x.tb.UF(fmt.Sprintf("strlit%d", len(x.strConst)), bv64)
		x.strConst[s] = arr
		x.facts = append(x.facts, x.nonNil(arr))
		x.facts = append(x.facts, x.tb.Eq(x.tb.UF("origin", bv64, arr), x.tb.BVInt(1000000+int64(len(x.strConst)), 64)))
		if len(s) <= 64 {
			for i := 0; i < len(s); i++ {
				x.facts = append(x.facts, x.tb.Eq(x.strByte(arr, x.tb.BVInt(int64(i), 64)), x.tb.BVInt(int64(s[i]), 8)))
			}
		}
	}
	return Val{T: t, L: []*Term{arr, x.tb.BVInt(0, 64), x.tb.BVInt(int64(len(s)), 64)}, Str: &s}
}

func (x *Exec) strByte(arr, idx *Term) *Term {
	return x.tb.UF("strbyte", x.tb.BV(8), arr, idx)
}

// ---------- value lookup

func (x *Exec) val(fr *Frame, v ssa.Value) Val {
	switch c := v.(type) {
	case *ssa.Const:
		return x.constVal(c)
	case *ssa.Function:
		return Val{T: c.Type(), L: []*Term{x.tb.UF("fn:"+c.String(), x.tb.BV(64))}, Clo: &ClosureInfo{Fn: c}}
	case *ssa.Global:
		pt := c.Type().(*types.Pointer).Elem()
		if _, ok := isStruct(pt); ok {
			r := x.tb.UF("glob:"+c.String(), x.tb.BV(64))
			x.addRefAxioms("glob:"+c.String(), r, nil)
			return Val{T: c.Type(), L: []*Term{r}, Ptr: &PtrInfo{Kind: PObj, T: pt}}
		}
		cls := "v:" + c.String()
		if c.Pkg != nil && !strings.HasPrefix(c.Pkg.Pkg.Path(), modulePath) {
			// package-level variables of other modules (io.EOF, ...) are treated as constants
			cls = "c:" + c.String()
			x.assumed["package-level variables of other modules (io.EOF, io.ErrUnexpectedEOF, ...) are never reassigned"] = true
		}
		return Val{T: c.Type(), L: []*Term{x.tb.UF("globaddr:"+c.String(), x.tb.BV(64))}, Ptr: &PtrInfo{Kind: PLoc, T: pt, Loc: Loc{Class: cls}}}
	case *ssa.Builtin:
		return Val{T: c.Type(), L: []*Term{x.tb.BVInt(1, 64)}}
	}
	if r, ok := fr.vals[v]; ok {
		return r
	}
	if fv, ok := v.(*ssa.FreeVar); ok {
		for i, f := range fr.fn.FreeVars {
			if f == fv && i < len(fr.bindings) {
				return fr.bindings[i]
			}
		}
	}
	x.note("value %s of %s not available; havoc", v.Name(), fr.fn.Name())
	r := x.freshVal(v.Type(), "undef_"+v.Name())
	fr.vals[v] = r
	return r
}

func (x *Exec) typeID(t types.Type) *Term {
	k := typeKey(t)
	id, ok := x.typeIDs[k]
	if !ok {
		id = len(x.typeIDs) + 1
		x.typeIDs[k] = id
	}
	return x.tb.BVInt(int64(id), 64)
}

// ---------- integer helpers

func (x *Exec) convertInt(v *Term, fromSigned bool, toW int) *Term {
	w := v.Sort.W
	if toW == w {
		return v
	}
	if toW < w {
		return x.tb.Extract(toW-1, 0, v)
	}
	if fromSigned {
		return x.tb.SExt(v, toW)
	}
	return x.tb.ZExt(v, toW)
}

func (x *Exec) binop(fr *Frame, st *State, op token.Token, a, b Val, resT types.Type, instr ssa.Instruction) Val {
	tb := x.tb
	// comparison of composite values
	if op == token.EQL || op == token.NEQ {
		eq := x.valEq(a, b)
		if op == token.NEQ {
			eq = tb.Not(eq)
		}
		return Val{T: resT, L: []*Term{eq}}
	}
	if _, ok := a.T.Underlying().(*types.Basic); ok {
		bt := a.T.Underlying().(*types.Basic)
		if bt.Info()&types.IsBoolean != 0 {
			switch op {
			case token.AND, token.LAND:
				return Val{T: resT, L: []*Term{tb.And(a.L[0], b.L[0])}}
			case token.OR, token.LOR:
				return Val{T: resT, L: []*Term{tb.Or(a.L[0], b.L[0])}}
			}
		}
		if bt.Info()&types.IsString != 0 {
			switch op {
			case token.ADD:
				// concatenation: fresh string with the right length
				r := x.freshVal(resT, "concat")
				x.assume(st, tb.And(tb.Eq(r.L[1], tb.BVInt(0, 64)), tb.Eq(r.L[2], tb.Add(a.L[2], b.L[2])), x.nonNilIfLen(r.L[0], r.L[2])))
				return r
			default:
				return x.freshVal(resT, "strcmp")
			}
		}
		if bt.Info()&types.IsFloat != 0 || bt.Info()&types.IsComplex != 0 {
			r := tb.UF("f"+op.String(), x.leaves(resT)[0].Sort, a.L[0], b.L[0])
			return Val{T: resT, L: []*Term{r}}
		}
	}
	_, signed, ok := x.intSort(a.T)
	if !ok {
		x.note("binop %s on %s unsupported", op, a.T)
		return x.freshVal(resT, "binop")
	}
	l, r := a.L[0], b.L[0]
	w := l.Sort.W
	switch op {
	case token.SHL, token.SHR:
		// shift count may have a different width and is unsigned (or non-negative)
		_, cs, _ := x.intSort(b.T)
		cnt := r
		over := tb.False
		if cnt.Sort.W > w {
			over = tb.Not(tb.ULt(cnt, tb.BVInt(int64(w), cnt.Sort.W)))
			cnt = tb.Extract(w-1, 0, cnt)
		} else if cnt.Sort.W < w {
			cnt = tb.ZExt(cnt, w)
			over = tb.Not(tb.ULt(cnt, tb.BVInt(int64(w), w)))
		} else {
			over = tb.Not(tb.ULt(cnt, tb.BVInt(int64(w), w)))
		}
		if cs {
			// negative shift count panics
			x.addObl(fr, st, "shift", instr, "", tb.SLe(tb.BVInt(0, r.Sort.W), r))
		}
		var res *Term
		if op == token.SHL {
			res = tb.Ite(over, tb.BVInt(0, w), tb.Shl(l, cnt))
		} else if signed {
			res = tb.Ite(over, tb.AShr(l, tb.BVInt(int64(w-1), w)), tb.AShr(l, cnt))
		} else {
			res = tb.Ite(over, tb.BVInt(0, w), tb.LShr(l, cnt))
		}
		return Val{T: resT, L: []*Term{res}}
	}
	if r.Sort != l.Sort {
		x.note("binop %s width mismatch", op)
		return x.freshVal(resT, "binop")
	}
	var res *Term
	switch op {
	case token.ADD:
		res = tb.Add(l, r)
	case token.SUB:
		res = tb.Sub(l, r)
	case token.MUL:
		res = tb.Mul(l, r)
	case token.QUO, token.REM:
		x.addObl(fr, st, "div", instr, "", tb.Not(tb.Eq(r, tb.BVInt(0, w))))
		if signed {
			if op == token.QUO {
				res = tb.SDiv(l, r)
			} else {
				res = tb.SRem(l, r)
			}
		} else {
			if op == token.QUO {
				res = tb.UDiv(l, r)
			} else {
				res = tb.URem(l, r)
			}
		}
	case token.AND:
		res = tb.BAnd(l, r)
	case token.OR:
		res = tb.BOr(l, r)
	case token.XOR:
		res = tb.BXor(l, r)
	case token.AND_NOT:
		res = tb.BAnd(l, tb.BNot(r))
	case token.LSS:
		if signed {
			res = tb.SLt(l, r)
		} else {
			res = tb.ULt(l, r)
		}
	case token.LEQ:
		if signed {
			res = tb.SLe(l, r)
		} else {
			res = tb.ULe(l, r)
		}
	case token.GTR:
		if signed {
			res = tb.SLt(r, l)
		} else {
			res = tb.ULt(r, l)
		}
	case token.GEQ:
		if signed {
			res = tb.SLe(r, l)
		} else {
			res = tb.ULe(r, l)
		}
	default:
		x.note("binop %s unsupported", op)
		return x.freshVal(resT, "binop")
	}
	return Val{T: resT, L: []*Term{res}}
}

func (x *Exec) nonNilIfLen(arr, ln *Term) *Term {
	return x.tb.Implies(x.tb.Not(x.tb.Eq(ln, x.tb.BVInt(0, 64))), x.nonNil(arr))
}

func (x *Exec) valEq(a, b Val) *Term {
	tb := x.tb
	// interface vs concrete nil etc. are already converted by SSA (MakeInterface); compare leaf-wise
	switch a.T.Underlying().(type) {
	case *types.Slice:
		// only comparison with nil is legal
		return tb.Eq(a.L[0], b.L[0])
	case *types.Interface:
		// equal tags and payloads (payload identity for boxed values is an under-approximation of ==,
		// adequate for comparisons with nil and with sentinel errors)
		z := tb.BVInt(0, 64)
		if (a.L[0] == z && a.L[1] == z) || (b.L[0] == z && b.L[1] == z) {
			return tb.Eq(a.L[0], b.L[0]) // nil-ness is decided by the dynamic type tag
		}
		return tb.And(tb.Eq(a.L[0], b.L[0]), tb.Eq(a.L[1], b.L[1]))
	}
	if bt, ok := a.T.Underlying().(*types.Basic); ok && bt.Info()&types.IsString != 0 {
		// strings: equal if same array/offset/length, or both empty; otherwise unknown
		same := tb.And(tb.Eq(a.L[0], b.L[0]), tb.Eq(a.L[1], b.L[1]), tb.Eq(a.L[2], b.L[2]))
		z := tb.BVInt(0, 64)
		bothEmpty := tb.And(tb.Eq(a.L[2], z), tb.Eq(b.L[2], z))
		difflen := tb.Not(tb.Eq(a.L[2], b.L[2]))
		u := tb.UF("streq", tb.Bool, a.L[0], a.L[1], b.L[0], b.L[1], a.L[2])
		return tb.Ite(tb.Or(same, bothEmpty), tb.True, tb.Ite(difflen, tb.False, u))
	}
	if len(a.L) != len(b.L) {
		return tb.Fresh("cmp", tb.Bool)
	}
	var cs []*Term
	for i := range a.L {
		cs = append(cs, tb.Eq(a.L[i], b.L[i]))
	}
	return tb.And(cs...)
}

// ---------- instruction execution

// execBlockInstrs runs the non-terminator instructions of b.
func (x *Exec) execInstr(fr *Frame, st *State, ins ssa.Instruction) {
	tb := x.tb
	switch i := ins.(type) {
	case *ssa.DebugRef:
		return
	case *ssa.Alloc:
		pt := i.Type().(*types.Pointer).Elem()
		if arr, ok := pt.Underlying().(*types.Array); ok {
			id := x.freshRef(st, "arr")
			z := Val{T: pt, L: x.zero(pt).L}
			x.storeArrayValue(st, arr, id, z.L)
			fr.vals[i] = Val{T: i.Type(), L: []*Term{id}, Ptr: &PtrInfo{Kind: PArrObj, T: pt, Arr: id}}
			return
		}
		if !i.Heap {
			k := cellKey{fr.id, i}
			st.cells[k] = x.zero(pt).L
			fr.vals[i] = Val{T: i.Type(), L: []*Term{tb.BVInt(1, 64)}, Ptr: &PtrInfo{Kind: PLocal, T: pt, Cell: k}}
			return
		}
		ref := x.freshRef(st, "new")
		if _, ok := isStruct(pt); ok {
			x.storeStructAt(st, pt, ref, x.zero(pt).L)
			fr.vals[i] = Val{T: i.Type(), L: []*Term{ref}, Ptr: &PtrInfo{Kind: PObj, T: pt}}
		} else {
			loc := Loc{Class: "b:" + typeKey(pt), Idx: []*Term{ref}}
			x.storeLoc(st, pt, loc, x.zero(pt).L)
			fr.vals[i] = Val{T: i.Type(), L: []*Term{ref}, Ptr: &PtrInfo{Kind: PLoc, T: pt, Loc: loc}}
		}
	case *ssa.Store:
		x.store(fr, st, x.val(fr, i.Addr), x.val(fr, i.Val), i)
	case *ssa.UnOp:
		fr.vals[i] = x.unop(fr, st, i)
	case *ssa.BinOp:
		fr.vals[i] = x.binop(fr, st, i.Op, x.val(fr, i.X), x.val(fr, i.Y), i.Type(), i)
	case *ssa.FieldAddr:
		fr.vals[i] = x.fieldAddr(fr, st, x.val(fr, i.X), i.Field, i)
	case *ssa.Field:
		v := x.val(fr, i.X)
		stT := v.T.Underlying().(*types.Struct)
		off, n := x.fieldRange(stT, i.Field)
		fr.vals[i] = Val{T: i.Type(), L: v.L[off : off+n]}
	case *ssa.Extract:
		v := x.val(fr, i.Tuple)
		tt := v.T.(*types.Tuple)
		off, n := x.tupleRange(tt, i.Index)
		fr.vals[i] = Val{T: i.Type(), L: v.L[off : off+n]}
	case *ssa.IndexAddr:
		fr.vals[i] = x.indexAddr(fr, st, i)
	case *ssa.Index:
		fr.vals[i] = x.index(fr, st, i)
	case *ssa.Slice:
		fr.vals[i] = x.sliceOp(fr, st, i)
	case *ssa.Convert:
		fr.vals[i] = x.convert(fr, st, i)
	case *ssa.ChangeType:
		v := x.val(fr, i.X)
		fr.vals[i] = Val{T: i.Type(), L: v.L, Ptr: v.Ptr, Clo: v.Clo}
	case *ssa.ChangeInterface:
		v := x.val(fr, i.X)
		fr.vals[i] = Val{T: i.Type(), L: v.L}
	case *ssa.MakeInterface:
		fr.vals[i] = x.makeInterface(fr, st, i.Type(), x.val(fr, i.X))
	case *ssa.TypeAssert:
		fr.vals[i] = x.typeAssert(fr, st, i)
	case *ssa.Phi:
		// handled at block entry
	case *ssa.Call:
		fr.vals[i] = x.call(fr, st, i, &i.Call)
	case *ssa.MakeSlice:
		fr.vals[i] = x.makeSlice(fr, st, i)
	case *ssa.MakeMap:
		ref := x.freshRef(st, "map")
		x.mapInit(st, i.Type(), ref)
		fr.vals[i] = Val{T: i.Type(), L: []*Term{ref}}
	case *ssa.MakeChan:
		fr.vals[i] = Val{T: i.Type(), L: []*Term{x.freshRef(st, "chan")}}
	case *ssa.MakeClosure:
		var bs []Val
		for _, b := range i.Bindings {
			bs = append(bs, x.val(fr, b))
		}
		if len(bs) > 0 && !fr.spec && closureMayWrite(i.Fn.(*ssa.Function)) {
			x.boxEsc = true // captured variables can now be written by whoever runs the closure
		}
		fr.vals[i] = Val{T: i.Type(), L: []*Term{x.freshRef(st, "clo")}, Clo: &ClosureInfo{Fn: i.Fn.(*ssa.Function), Bindings: bs}}
	case *ssa.Lookup:
		fr.vals[i] = x.lookup(fr, st, i)
	case *ssa.MapUpdate:
		x.mapUpdate(fr, st, i)
	case *ssa.Range:
		fr.vals[i] = x.freshVal(i.Type(), "range")
	case *ssa.Next:
		nv := x.freshVal(i.Type(), "next")
		fr.vals[i] = nv
		if tt, ok := i.Type().(*types.Tuple); ok {
			off := 0
			for k := 0; k < tt.Len(); k++ {
				n := x.nleaves(tt.At(k).Type())
				if off+n <= len(nv.L) {
					x.assumeWF(st, tt.At(k).Type(), nv.L[off:off+n])
				}
				off += n
			}
		}
		// an iteration over a map yields an element only if the map has one
		if rg, ok := i.Iter.(*ssa.Range); ok && !i.IsString {
			if _, isMap := rg.X.Type().Underlying().(*types.Map); isMap && len(nv.L) > 0 && nv.L[0].Sort.Kind == SBool {
				m := x.val(fr, rg.X)
				x.assume(st, x.tb.Implies(nv.L[0], x.tb.SLt(x.tb.BVInt(0, 64), x.mapLen(st, m))))
			}
		}
	case *ssa.Select:
		sv := x.freshVal(i.Type(), "select")
		fr.vals[i] = sv
		if i.Blocking && len(sv.L) > 0 && sv.L[0].Sort.Kind == SBV {
			// a blocking select returns the index of one of its cases
			w := sv.L[0].Sort.W
			x.assume(st, x.tb.And(x.tb.SLe(x.tb.BVInt(0, w), sv.L[0]), x.tb.SLt(sv.L[0], x.tb.BVInt(int64(len(i.States)), w))))
		}
	case *ssa.Send:
		// no effect on modelled state
	case *ssa.Go:
		// the spawned goroutine is verified separately; concurrency is abstracted (DESIGN §2.6)
	case *ssa.Defer:
		var args []Val
		for _, a := range i.Call.Args {
			args = append(args, x.val(fr, a))
		}
		var fnv Val
		if i.Call.Value != nil {
			fnv = x.val(fr, i.Call.Value)
		}
		fr.defers = append(fr.defers, deferEntry{cond: x.pcOf(st), call: &i.Call, fr: fr, pos: i.Pos(), args: args, fnv: fnv})
	case *ssa.RunDefers:
		x.runDefers(fr, st, i)
	case *ssa.SliceToArrayPointer:
		fr.vals[i] = x.freshVal(i.Type(), "s2a")
	case *ssa.MultiConvert:
		fr.vals[i] = x.freshVal(i.Type(), "mconv")
	default:
		if v, ok := ins.(ssa.Value); ok {
			x.note("instruction %T unsupported", ins)
			fr.vals[v] = x.freshVal(v.Type(), "unsup")
		}
	}
}

// Allocation is modelled by birth time stamps: birth(r) is fixed per object, the state carries a
// clock g:now, an object is allocated in a state iff birth(r) < now.  Allocation stamps the new
// object with the current clock and advances it; code that may allocate (calls, loops) advances
// the clock by an unknown amount.  Every reference stored in a heap variable denotes an object
// born before the clock value at which the variable's contents were established (baseNow).
func (x *Exec) now(st *State) *Term { return x.heapGet(st, "g:now", x.tb.BV(64)) }

func (x *Exec) birth(r *Term) *Term {
	// an array rather than an uninterpreted function: cvc5's integer back end rejects bound
	// variables under uninterpreted functions
	bv64 := x.tb.BV(64)
	return x.tb.Select(x.tb.Var("birth", x.tb.Array(bv64, bv64)), r)
}

func (x *Exec) allocAt(now, r *Term) *Term { return x.tb.ULt(x.birth(r), now) }

func (x *Exec) freshRef(st *State, hint string) *Term {
	bv64 := x.tb.BV(64)
	r := x.tb.Fresh(hint, bv64)
	now := x.now(st)
	x.assume(st, x.tb.And(x.nonNil(r), x.tb.Eq(x.birth(r), now), x.tb.Eq(x.tb.UF("origin", bv64, r), x.tb.BVInt(0, 64))))
	x.heapSet(st, "g:now", x.tb.Add(now, x.tb.BVInt(1, 64)))
	x.assume(st, x.tb.ULt(now, x.tb.Add(now, x.tb.BVInt(1, 64))))
	x.freshRefs[r.ID] = true
	return r
}

// bumpNow: unknown code ran; it may have allocated objects.
func (x *Exec) bumpNow(st *State) {
	d := x.tb.Fresh("dn", x.tb.BV(64))
	x.assume(st, x.tb.ULe(d, x.tb.BVInt(1<<32, 64)))
	old := x.now(st)
	nw := x.tb.Add(old, d)
	// the clock never wraps (2^32 steps of at most 2^32 from a start below 2^32); stated outright
	// so that no solver has to rediscover it through the adder
	x.assume(st, x.tb.ULe(old, nw))
	x.heapSet(st, "g:now", nw)
}

// assumeAllocated: a reference obtained from the heap or the environment is nil or allocated;
// where its term shows which heap variable it was read from, it was allocated already when
// that variable's contents were established (so it is none of the objects created since).
func (x *Exec) assumeAllocated(st *State, r *Term) {
	f := x.allocFact(st, r, 0)
	if os.Getenv("GOVC_DEBUG_ALLOC") != "" {
		fmt.Fprintf(os.Stderr, "allocfact %s => %s\n", x.tb.Show(r), x.tb.Show(f))
	}
	x.assume(st, f)
}

func (x *Exec) allocFact(st *State, r *Term, depth int) *Term {
	tb := x.tb
	if x.freshRefs[r.ID] || (r.Op == "bv" && r.Val.Sign() == 0) {
		return tb.True
	}
	if depth < 24 {
		switch r.Op {
		case "ite":
			return tb.Ite(r.Args[0], x.allocFact(st, r.Args[1], depth+1), x.allocFact(st, r.Args[2], depth+1))
		case "select":
			return x.allocSel(st, r.Args[0], []*Term{r.Args[1]}, depth+1)
		}
	}
	return tb.Or(tb.Eq(r, tb.BVInt(0, 64)), x.allocAt(x.now(st), r))
}

// allocSel: allocation fact for the reference select(...select(a, path[0])..., path[n-1]).
func (x *Exec) allocSel(st *State, a *Term, path []*Term, depth int) *Term {
	tb := x.tb
	full := func() *Term {
		t := a
		for _, i := range path {
			t = tb.Select(t, i)
		}
		return t
	}
	if nw, ok := x.baseNow[a.ID]; ok {
		v := full()
		return tb.Or(tb.Eq(v, tb.BVInt(0, 64)), x.allocAt(nw, v))
	}
	if depth < 24 {
		switch a.Op {
		case "ite":
			return tb.Ite(a.Args[0], x.allocSel(st, a.Args[1], path, depth+1), x.allocSel(st, a.Args[2], path, depth+1))
		case "select":
			return x.allocSel(st, a.Args[0], append([]*Term{a.Args[1]}, path...), depth+1)
		case "store":
			var hit *Term
			if len(path) == 1 {
				hit = x.allocFact(st, a.Args[2], depth+1)
			} else {
				hit = x.allocSel(st, a.Args[2], path[1:], depth+1)
			}
			return tb.Ite(tb.Eq(path[0], a.Args[1]), hit, x.allocSel(st, a.Args[0], path, depth+1))
		}
	}
	v := full()
	return tb.Or(tb.Eq(v, tb.BVInt(0, 64)), x.allocAt(x.now(st), v))
}

func (x *Exec) unop(fr *Frame, st *State, i *ssa.UnOp) Val {
	tb := x.tb
	v := x.val(fr, i.X)
	switch i.Op {
	case token.MUL: // load
		r := x.load(fr, st, v, i)
		r.T = i.Type()
		// recover allocation facts for loaded references
		for k, l := range x.leaves(r.T) {
			if l.Kind == LRef && l.Path != "#val" {
				x.assumeAllocated(st, r.L[k])
			}
		}
		return r
	case token.NOT:
		return Val{T: i.Type(), L: []*Term{tb.Not(v.L[0])}}
	case token.SUB:
		if _, _, ok := x.intSort(v.T); ok {
			return Val{T: i.Type(), L: []*Term{tb.Neg(v.L[0])}}
		}
		return Val{T: i.Type(), L: []*Term{tb.UF("fneg", v.L[0].Sort, v.L[0])}}
	case token.XOR:
		return Val{T: i.Type(), L: []*Term{tb.BNot(v.L[0])}}
	case token.ARROW:
		r := x.freshVal(i.Type(), "recv")
		x.assumeWF(st, i.Type(), r.L)
		return r
	}
	x.note("unop %s unsupported", i.Op)
	return x.freshVal(i.Type(), "unop")
}

func (x *Exec) convert(fr *Frame, st *State, i *ssa.Convert) Val {
	v := x.val(fr, i.X)
	from, to := v.T, i.Type()
	if ts, tsigned, ok := x.intSort(to); ok {
		if _, fs, ok2 := x.intSort(from); ok2 {
			r := x.convertInt(v.L[0], fs, ts.W)
			if fr.lossless && !fr.spec && !isM(to) && (ts.W < v.L[0].Sort.W || fs != tsigned) {
				W := v.L[0].Sort.W
				if ts.W > W {
					W = ts.W
				}
				W++
				a := x.convertInt(v.L[0], fs, W)
				b := x.convertInt(r, tsigned, W)
				x.addObl(fr, st, "conv", i, "", x.tb.Eq(a, b))
			}
			return Val{T: to, L: []*Term{r}}
		}
		if b, ok := from.Underlying().(*types.Basic); ok && b.Kind() == types.UnsafePointer {
			return Val{T: to, L: []*Term{v.L[0]}}
		}
		// float -> int
		return Val{T: to, L: []*Term{x.tb.UF(fmt.Sprintf("f2i_%d", ts.W), ts, v.L[0])}}
	}
	tb := x.tb
	fb, _ := from.Underlying().(*types.Basic)
	tbk, _ := to.Underlying().(*types.Basic)
	switch {
	case tbk != nil && tbk.Info()&types.IsFloat != 0:
		s := x.leaves(to)[0].Sort
		return Val{T: to, L: []*Term{tb.UF(fmt.Sprintf("2f_%d_%d", v.L[0].Sort.W, s.W), s, v.L[0])}}
	case tbk != nil && tbk.Info()&types.IsString != 0:
		if sl, ok := from.Underlying().(*types.Slice); ok {
			// string(bytes): fresh immutable array with the same contents
			_ = sl
			r := x.freshVal(to, "str")
			z := tb.BVInt(0, 64)
			x.assume(st, tb.And(tb.Eq(r.L[1], z), tb.Eq(r.L[2], v.L[2]), x.nonNilIfLen(r.L[0], r.L[2])))
			if bs, ok := sl.Elem().Underlying().(*types.Basic); ok && bs.Kind() == types.Uint8 {
				k := tb.BoundVar("k", tb.BV(64))
				src := tb.Select(tb.Select(x.bytesHeap(st), v.L[0]), tb.Add(v.L[1], k))
				x.assume(st, tb.Forall([]*Term{k}, tb.Implies(tb.And(tb.SLe(z, k), tb.SLt(k, v.L[2])), tb.Eq(x.strByte(r.L[0], k), src))))
			}
			return r
		}
		if fb != nil && fb.Info()&types.IsInteger != 0 {
			r := x.freshVal(to, "runestr")
			x.assumeWF(st, to, r.L)
			return r
		}
		return Val{T: to, L: v.L}
	case fb != nil && fb.Info()&types.IsString != 0:
		if sl, ok := to.Underlying().(*types.Slice); ok {
			arr := x.freshRef(st, "bs")
			z := tb.BVInt(0, 64)
			r := Val{T: to, L: []*Term{arr, z, v.L[2], v.L[2]}}
			if bs, ok := sl.Elem().Underlying().(*types.Basic); ok && bs.Kind() == types.Uint8 {
				na := tb.Fresh("bsarr", tb.Array(tb.BV(64), tb.BV(8)))
				k := tb.BoundVar("k", tb.BV(64))
				x.assume(st, tb.Forall([]*Term{k}, tb.Implies(tb.And(tb.SLe(z, k), tb.SLt(k, v.L[2])), tb.Eq(tb.Select(na, k), x.strByte(v.L[0], tb.Add(v.L[1], k))))))
				x.heapSet(st, bytesClass, tb.Store(x.bytesHeap(st), arr, na))
			}
			return r
		}
	}
	if _, ok := to.Underlying().(*types.Pointer); ok {
		return Val{T: to, L: v.L, Ptr: v.Ptr}
	}
	if tbk != nil && tbk.Kind() == types.UnsafePointer {
		return Val{T: to, L: []*Term{v.L[0]}}
	}
	if len(x.leaves(to)) == len(v.L) {
		ok := true
		for k, l := range x.leaves(to) {
			if l.Sort != v.L[k].Sort {
				ok = false
			}
		}
		if ok {
			return Val{T: to, L: v.L}
		}
	}
	x.note("convert %s -> %s unsupported", from, to)
	return x.freshVal(to, "conv")
}

const bytesClass = "e:uint8"

func (x *Exec) bytesHeap(st *State) *Term {
	return x.heapGet(st, bytesClass, x.locArraySort(2, x.tb.BV(8)))
}

func (x *Exec) makeInterface(fr *Frame, st *State, t types.Type, v Val) Val {
	tb := x.tb
	tag := x.typeID(v.T)
	if _, ok := v.T.Underlying().(*types.Interface); ok {
		return Val{T: t, L: v.L}
	}
	ls := x.leaves(v.T)
	if len(ls) == 1 && ls[0].Sort == tb.BV(64) && ls[0].Kind == LRef {
		return Val{T: t, L: []*Term{tag, v.L[0]}}
	}
	// box
	box := x.freshRef(st, "box")
	if len(ls) > 0 {
		x.storeLoc(st, v.T, Loc{Class: "x:" + typeKey(v.T), Idx: []*Term{box}}, v.L)
	}
	return Val{T: t, L: []*Term{tag, box}}
}

func (x *Exec) typeAssert(fr *Frame, st *State, i *ssa.TypeAssert) Val {
	tb := x.tb
	v := x.val(fr, i.X)
	at := i.AssertedType
	var ok *Term
	var res Val
	if _, isIface := at.Underlying().(*types.Interface); isIface {
		// dynamic type implements the interface?  unknown in general; nil never does
		ok = tb.And(tb.Not(tb.Eq(v.L[0], tb.BVInt(0, 64))), tb.UF("implements:"+typeKey(at), tb.Bool, v.L[0]))
		if types.Identical(at, v.T) || types.AssignableTo(v.T, at) {
			ok = tb.Not(tb.Eq(v.L[0], tb.BVInt(0, 64)))
		}
		res = Val{T: at, L: []*Term{tb.Ite(ok, v.L[0], tb.BVInt(0, 64)), tb.Ite(ok, v.L[1], tb.BVInt(0, 64))}}
	} else {
		ok = tb.Eq(v.L[0], x.typeID(at))
		ls := x.leaves(at)
		if len(ls) == 1 && ls[0].Sort == tb.BV(64) && ls[0].Kind == LRef {
			res = Val{T: at, L: []*Term{tb.Ite(ok, v.L[1], tb.BVInt(0, 64))}}
			if _, isPtr := at.Underlying().(*types.Pointer); isPtr {
				// standing assumption: interfaces never hold typed-nil pointers
				x.assume(st, tb.Implies(ok, x.nonNil(v.L[1])))
				x.assumed["interfaces never hold typed-nil pointers (type assertions to pointer types yield non-nil)"] = true
			}
		} else if len(ls) == 0 {
			res = Val{T: at}
		} else {
			l := x.loadLoc(st, at, Loc{Class: "x:" + typeKey(at), Idx: []*Term{v.L[1]}})
			z := x.zero(at)
			for k := range l {
				l[k] = tb.Ite(ok, l[k], z.L[k])
			}
			res = Val{T: at, L: l}
		}
	}
	if i.CommaOk {
		return Val{T: i.Type(), L: append(append([]*Term{}, res.L...), ok)}
	}
	x.addObl(fr, st, "typeassert", i, "", ok)
	x.assume(st, ok)
	return res
}

func (x *Exec) makeSlice(fr *Frame, st *State, i *ssa.MakeSlice) Val {
	tb := x.tb
	ln := x.val(fr, i.Len)
	cp := x.val(fr, i.Cap)
	_, ls, _ := x.intSort(ln.T)
	_, cs, _ := x.intSort(cp.T)
	l64 := x.convertInt(ln.L[0], ls, 64)
	c64 := x.convertInt(cp.L[0], cs, 64)
	z := tb.BVInt(0, 64)
	// (memory exhaustion is outside the model: only the sign and len <= cap are obligations)
	x.addObl(fr, st, "makeslice", i, "", tb.And(tb.SLe(z, l64), tb.SLe(l64, c64)))
	arr := x.freshRef(st, "mk")
	et := i.Type().Underlying().(*types.Slice).Elem()
	x.zeroFillArr(st, et, arr)
	return Val{T: i.Type(), L: []*Term{arr, z, l64, c64}}
}

func (x *Exec) zeroFillArr(st *State, et types.Type, arr *Term) {
	if _, ok := isStruct(et); ok {
		return // element objects of fresh arrays: fields unconstrained (over-approximation)
	}
	if _, ok := et.Underlying().(*types.Array); ok {
		return
	}
	for _, l := range x.leaves(et) {
		cls := elemClass(et) + l.Path
		h := x.heapGet(st, cls, x.locArraySort(2, l.Sort))
		x.heapSet(st, cls, x.tb.Store(h, arr, x.tb.ConstArray(x.tb.Array(x.tb.BV(64), l.Sort), x.zeroOfSort(l.Sort))))
	}
}

func (x *Exec) indexAddr(fr *Frame, st *State, i *ssa.IndexAddr) Val {
	tb := x.tb
	base := x.val(fr, i.X)
	idx := x.val(fr, i.Index)
	_, is, _ := x.intSort(idx.T)
	i64 := x.convertInt(idx.L[0], is, 64)
	z := tb.BVInt(0, 64)
	resT := i.Type()
	switch bt := base.T.Underlying().(type) {
	case *types.Slice:
		x.addObl(fr, st, "bounds", i, "", tb.And(tb.SLe(z, i64), tb.SLt(i64, base.L[2])))
		abs := tb.Add(base.L[1], i64)
		et := bt.Elem()
		if _, ok := isStruct(et); ok {
			return Val{T: resT, L: []*Term{x.elemRef(et, base.L[0], abs)}, Ptr: &PtrInfo{Kind: PObj, T: et}}
		}
		return x.regPtr(Val{T: resT, L: []*Term{tb.UF("eaddr", tb.BV(64), base.L[0], abs)}, Ptr: &PtrInfo{Kind: PLoc, T: et, Loc: Loc{Class: elemClass(et), Idx: []*Term{base.L[0], abs}}}})
	case *types.Pointer:
		arr := bt.Elem().Underlying().(*types.Array)
		x.addObl(fr, st, "bounds", i, "", tb.And(tb.SLe(z, i64), tb.SLt(i64, tb.BVInt(arr.Len(), 64))))
		id, ok := x.arrayID(fr, st, base, i)
		if !ok {
			return Val{T: resT, L: []*Term{tb.Fresh("ia", tb.BV(64))}, Ptr: &PtrInfo{Kind: POpaque, T: arr.Elem()}}
		}
		et := arr.Elem()
		if _, ok := isStruct(et); ok {
			return Val{T: resT, L: []*Term{x.elemRef(et, id, i64)}, Ptr: &PtrInfo{Kind: PObj, T: et}}
		}
		return x.regPtr(Val{T: resT, L: []*Term{tb.UF("eaddr", tb.BV(64), id, i64)}, Ptr: &PtrInfo{Kind: PLoc, T: et, Loc: Loc{Class: elemClass(et), Idx: []*Term{id, i64}}}})
	}
	x.note("indexaddr on %s unsupported", base.T)
	return Val{T: resT, L: []*Term{tb.Fresh("ia", tb.BV(64))}, Ptr: &PtrInfo{Kind: POpaque, T: resT.Underlying().(*types.Pointer).Elem()}}
}

// arrayID gives the element-heap array id for a pointer to an array.
func (x *Exec) arrayID(fr *Frame, st *State, base Val, instr ssa.Instruction) (*Term, bool) {
	pi := x.ptrInfoOf(base)
	switch pi.Kind {
	case PArrObj:
		return pi.Arr, true
	case PLoc:
		if len(pi.Loc.Idx) > 0 && strings.HasPrefix(pi.Loc.Class, "f:") {
			x.oblNil(fr, st, pi.Loc.Idx[0], instr)
		}
		return x.fieldArrID(pi.Loc), true
	case PLocal:
		// array inside a local struct cell: not modelled
		return nil, false
	}
	return nil, false
}

func (x *Exec) index(fr *Frame, st *State, i *ssa.Index) Val {
	tb := x.tb
	base := x.val(fr, i.X)
	idx := x.val(fr, i.Index)
	_, is, _ := x.intSort(idx.T)
	i64 := x.convertInt(idx.L[0], is, 64)
	z := tb.BVInt(0, 64)
	switch bt := base.T.Underlying().(type) {
	case *types.Basic: // string
		x.addObl(fr, st, "bounds", i, "", tb.And(tb.SLe(z, i64), tb.SLt(i64, base.L[2])))
		return Val{T: i.Type(), L: []*Term{x.strByte(base.L[0], tb.Add(base.L[1], i64))}}
	case *types.Array:
		x.addObl(fr, st, "bounds", i, "", tb.And(tb.SLe(z, i64), tb.SLt(i64, tb.BVInt(bt.Len(), 64))))
		out := make([]*Term, len(base.L))
		for k := range base.L {
			out[k] = tb.Select(base.L[k], i64)
		}
		return Val{T: i.Type(), L: out}
	}
	return x.freshVal(i.Type(), "index")
}

func (x *Exec) sliceOp(fr *Frame, st *State, i *ssa.Slice) Val {
	tb := x.tb
	base := x.val(fr, i.X)
	z := tb.BVInt(0, 64)
	get := func(v ssa.Value, def *Term) *Term {
		if v == nil {
			return def
		}
		val := x.val(fr, v)
		_, s, _ := x.intSort(val.T)
		return x.convertInt(val.L[0], s, 64)
	}
	strict := fr.strict
	switch bt := base.T.Underlying().(type) {
	case *types.Slice:
		lo := get(i.Low, z)
		hi := get(i.High, base.L[2])
		limit := base.L[3]
		if strict || fr.spec {
			limit = base.L[2]
		}
		var mx *Term
		if i.Max != nil {
			mx = get(i.Max, nil)
			x.addObl(fr, st, "bounds", i, "", tb.And(tb.SLe(z, lo), tb.SLe(lo, hi), tb.SLe(hi, mx), tb.SLe(mx, base.L[3])))
		} else {
			mx = base.L[3]
			x.addObl(fr, st, "bounds", i, "", tb.And(tb.SLe(z, lo), tb.SLe(lo, hi), tb.SLe(hi, limit)))
		}
		return Val{T: i.Type(), L: []*Term{base.L[0], tb.Add(base.L[1], lo), tb.Sub(hi, lo), tb.Sub(mx, lo)}}
	case *types.Basic: // string
		lo := get(i.Low, z)
		hi := get(i.High, base.L[2])
		x.addObl(fr, st, "bounds", i, "", tb.And(tb.SLe(z, lo), tb.SLe(lo, hi), tb.SLe(hi, base.L[2])))
		return Val{T: i.Type(), L: []*Term{base.L[0], tb.Add(base.L[1], lo), tb.Sub(hi, lo)}}
	case *types.Pointer: // pointer to array
		arr := bt.Elem().Underlying().(*types.Array)
		n := tb.BVInt(arr.Len(), 64)
		lo := get(i.Low, z)
		hi := get(i.High, n)
		mx := get(i.Max, n)
		x.addObl(fr, st, "bounds", i, "", tb.And(tb.SLe(z, lo), tb.SLe(lo, hi), tb.SLe(hi, mx), tb.SLe(mx, n)))
		id, ok := x.arrayID(fr, st, base, i)
		if !ok {
			r := x.freshVal(i.Type(), "sl")
			x.assumeWF(st, i.Type(), r.L)
			x.assume(st, tb.And(tb.Eq(r.L[2], tb.Sub(hi, lo)), tb.Eq(r.L[3], tb.Sub(mx, lo))))
			return r
		}
		return Val{T: i.Type(), L: []*Term{id, lo, tb.Sub(hi, lo), tb.Sub(mx, lo)}}
	}
	x.note("slice of %s unsupported", base.T)
	r := x.freshVal(i.Type(), "sl")
	x.assumeWF(st, i.Type(), r.L)
	return r
}

// ---------- maps (reference + uninterpreted contents)

func mapClass(t types.Type) string { return "m:" + typeKey(t) }

func (x *Exec) mapInit(st *State, t types.Type, ref *Term) {
	tb := x.tb
	cls := mapClass(t) + "#len"
	h := x.heapGet(st, cls, tb.Array(tb.BV(64), tb.BV(64)))
	x.heapSet(st, cls, tb.Store(h, ref, tb.BVInt(0, 64)))
	// a new map holds no key
	hc := mapClass(t) + "#has"
	ph := x.heapGet(st, hc, x.locArraySort(2, tb.Bool))
	x.heapSet(st, hc, tb.Store(ph, ref, tb.ConstArray(tb.Array(tb.BV(64), tb.Bool), tb.False)))
}

func (x *Exec) mapKeyTerm(k Val) (*Term, bool) {
	if len(k.L) == 1 && k.L[0].Sort.Kind == SBV {
		return x.tb.ZExt(k.L[0], 64), k.L[0].Sort.W <= 64
	}
	return nil, false
}

func (x *Exec) lookup(fr *Frame, st *State, i *ssa.Lookup) Val {
	tb := x.tb
	m := x.val(fr, i.X)
	k := x.val(fr, i.Index)
	if _, isStr := m.T.Underlying().(*types.Basic); isStr {
		_, is, _ := x.intSort(k.T)
		i64 := x.convertInt(k.L[0], is, 64)
		x.addObl(fr, st, "bounds", i, "", tb.And(tb.SLe(tb.BVInt(0, 64), i64), tb.SLt(i64, m.L[2])))
		return Val{T: i.Type(), L: []*Term{x.strByte(m.L[0], tb.Add(m.L[1], i64))}}
	}
	mt := m.T.Underlying().(*types.Map)
	vt := mt.Elem()
	var res Val
	var present *Term
	kt, ok := x.mapKeyTerm(k)
	vls := x.leaves(vt)
	if ok && len(vls) > 0 {
		// contents heap: map ref -> key -> value leaves ; presence heap
		isNil := tb.Eq(m.L[0], tb.BVInt(0, 64))
		ph := x.heapGet(st, mapClass(m.T)+"#has", x.locArraySort(2, tb.Bool))
		present = tb.And(tb.Not(isNil), tb.Select(tb.Select(ph, m.L[0]), kt))
		out := make([]*Term, len(vls))
		z := x.zero(vt)
		for j, l := range vls {
			h := x.heapGet(st, mapClass(m.T)+"#v"+l.Path, x.locArraySort(2, l.Sort))
			out[j] = tb.Ite(present, tb.Select(tb.Select(h, m.L[0]), kt), z.L[j])
		}
		res = Val{T: vt, L: out}
		x.assumeWF(st, vt, res.L)
		for j, l := range vls {
			if l.Kind == LRef && l.Path != "#val" {
				x.assumeAllocated(st, out[j])
			}
		}
	} else {
		res = x.freshVal(vt, "mapv")
		x.assumeWF(st, vt, res.L)
		present = tb.Fresh("mapok", tb.Bool)
	}
	if i.CommaOk {
		return Val{T: i.Type(), L: append(append([]*Term{}, res.L...), present)}
	}
	return res
}

func (x *Exec) mapUpdate(fr *Frame, st *State, i *ssa.MapUpdate) {
	tb := x.tb
	m := x.val(fr, i.Map)
	k := x.val(fr, i.Key)
	v := x.val(fr, i.Value)
	x.addObl(fr, st, "nilmap", i, "", x.nonNil(m.L[0]))
	kt, ok := x.mapKeyTerm(k)
	mt := m.T.Underlying().(*types.Map)
	vls := x.leaves(mt.Elem())
	if ok && len(vls) > 0 {
		cls := mapClass(m.T) + "#has"
		ph := x.heapGet(st, cls, x.locArraySort(2, tb.Bool))
		x.heapSet(st, cls, tb.Store(ph, m.L[0], tb.Store(tb.Select(ph, m.L[0]), kt, tb.True)))
		for j, l := range vls {
			c := mapClass(m.T) + "#v" + l.Path
			h := x.heapGet(st, c, x.locArraySort(2, l.Sort))
			x.heapSet(st, c, tb.Store(h, m.L[0], tb.Store(tb.Select(h, m.L[0]), kt, v.L[j])))
		}
	}
	// length becomes unknown
	cls := mapClass(m.T) + "#len"
	h := x.heapGet(st, cls, tb.Array(tb.BV(64), tb.BV(64)))
	nl := tb.Fresh("maplen", tb.BV(64))
	x.assume(st, tb.SLe(tb.BVInt(1, 64), nl))
	x.heapSet(st, cls, tb.Store(h, m.L[0], nl))
}

func (x *Exec) mapDelete(st *State, m, k Val) {
	tb := x.tb
	kt, ok := x.mapKeyTerm(k)
	if ok {
		cls := mapClass(m.T) + "#has"
		ph := x.heapGet(st, cls, x.locArraySort(2, tb.Bool))
		x.heapSet(st, cls, tb.Store(ph, m.L[0], tb.Store(tb.Select(ph, m.L[0]), kt, tb.False)))
	}
	cls := mapClass(m.T) + "#len"
	h := x.heapGet(st, cls, tb.Array(tb.BV(64), tb.BV(64)))
	nl := tb.Fresh("maplen", tb.BV(64))
	x.assume(st, tb.SLe(tb.BVInt(0, 64), nl))
	x.heapSet(st, cls, tb.Store(h, m.L[0], nl))
}

func (x *Exec) mapLen(st *State, m Val) *Term {
	tb := x.tb
	cls := mapClass(m.T) + "#len"
	h := x.heapGet(st, cls, tb.Array(tb.BV(64), tb.BV(64)))
	l := tb.Select(h, m.L[0])
	x.assume(st, tb.SLe(tb.BVInt(0, 64), l))
	return tb.Ite(tb.Eq(m.L[0], tb.BVInt(0, 64)), tb.BVInt(0, 64), l)
}

// ---------- defers

func (x *Exec) runDefers(fr *Frame, st *State, instr ssa.Instruction) {
	for k := len(fr.defers) - 1; k >= 0; k-- {
		d := fr.defers[k]
		// run the call under guard d.cond
		if st.reach.IsFalse() {
			return
		}
		on := st.clone()
		x.branch(on, d.cond)
		off := st.clone()
		x.branch(off, x.tb.Not(d.cond))
		if !on.reach.IsFalse() {
			x.callCommon(fr, on, nil, d.call, d.args, d.fnv, d.pos)
		}
		m := x.mergeStates([]*State{on, off})
		*st = *m
	}
}

// ---------- AST helpers

func exprText(fset *token.FileSet, n ast.Node) string { return squeeze(nodeText(fset, n)) }

func sortedKeys(m map[string]int) []string {
	var ks []string
	for k := range m {
		ks = append(ks, k)
	}
	sort.Strings(ks)
	return ks
}

// closureMayWrite: does the closure do anything with a captured variable other than reading it?
func closureMayWrite(fn *ssa.Function) bool {
	fvs := map[ssa.Value]bool{}
	for _, fv := range fn.FreeVars {
		fvs[fv] = true
	}
	for _, b := range fn.Blocks {
		for _, ins := range b.Instrs {
			if u, ok := ins.(*ssa.UnOp); ok && u.Op == token.MUL && fvs[u.X] {
				continue // plain read
			}
			if _, ok := ins.(*ssa.DebugRef); ok {
				continue
			}
			for _, op := range ins.Operands(nil) {
				if op != nil && *op != nil && fvs[*op] {
					return true
				}
			}
		}
	}
	return false
}
