package main

import (
	"encoding/json"
	"flag"
	"fmt"
	"os"
	"path/filepath"
	"sort"
	"strconv"
	"strings"
	"time"
)

// propPackages: which packages (relative to the repo root) carry contracts for a property.
var propPackages = map[string][]string{
	"C01": {".", "internal/packed"},
	"C02": {"."},
	"C03": {"."},
	"C04": {"."},
	"C05": {"."},
	"C06": {"rpc"},
	"C07": {"rpc"},
	"C08": {".", "rpc"},
	"C09": {"rpc"},
	"C10": {".", "rpc"},
	"C11": {"."},
	"C12": {"server"},
	"C13": {"internal/packed"},
	"C14": {"."},
	"C15": {"capnpc-go"},
	"C16": {"."},
	"C17": {"."},
	"C18": {"."},
	"C19": {"pogs"},
	"C20": {"internal/strquote", "encoding/text", "internal/nodemap"},
}

type KnownFinding struct {
	Property    string `json:"property"`
	Obligation  string `json:"obligation"`
	Witness     string `json:"witness,omitempty"`
	Description string `json:"description"`
	Status      string `json:"status"` // "open" or "fixed"
	Commit      string `json:"commit,omitempty"`
	Line        string `json:"line,omitempty"`
}

type Baseline struct {
	Undecided []struct {
		Obligation string `json:"obligation"`
		Reason     string `json:"reason"`
	} `json:"undecided"`
}

func loadKnown() []KnownFinding {
	var kf []KnownFinding
	data, err := os.ReadFile(filepath.Join(verifDir, "known_findings.json"))
	if err == nil {
		_ = json.Unmarshal(data, &kf)
	}
	return kf
}

func loadBaseline() map[string]string {
	out := map[string]string{}
	var b Baseline
	data, err := os.ReadFile(filepath.Join(verifDir, "undecided_baseline.json"))
	if err == nil {
		_ = json.Unmarshal(data, &b)
	}
	for _, u := range b.Undecided {
		out[u.Obligation] = u.Reason
	}
	return out
}

func hasProp(ps []string, p string) bool {
	for _, q := range ps {
		if q == p {
			return true
		}
	}
	return false
}

func unitHasProp(u *FuncUnit, p string) bool {
	if hasProp(u.C.Props, p) {
		return true
	}
	for _, c := range u.C.Ensures {
		if hasProp(c.Props, p) {
			return true
		}
	}
	for _, c := range u.C.Requires {
		if hasProp(c.Props, p) {
			return true
		}
	}
	return false
}

func cmdCheck(args []string) {
	fs := flag.NewFlagSet("check", flag.ExitOnError)
	prop := fs.String("property", "", "property id")
	tier := fs.String("tier", "quick", "quick|thorough")
	dump := fs.String("dump", "", "directory for SMT queries")
	fs.StringVar(&repoDir, "repo", repoDir, "repository directory")
	fs.StringVar(&verifDir, "verif", verifDir, "verification directory")
	noEvidence := fs.Bool("no-evidence", false, "do not write the evidence file (selftests)")
	fs.Parse(args)
	if t := os.Getenv("VERIF_TIER"); t != "" && *tier == "" {
		*tier = t
	}
	seed := 0
	if s := os.Getenv("VERIF_SEED"); s != "" {
		seed, _ = strconv.Atoi(s)
	}
	t0 := time.Now()
	cfg := defaultConfig()
	cfg.DumpDir = *dump
	if *tier == "thorough" {
		cfg.TimeoutMs = 120000
		cfg.CoverReturns = true
	}
	pkgs, ok := propPackages[*prop]
	if !ok {
		fmt.Fprintf(os.Stderr, "unknown property %q\n", *prop)
		os.Exit(2)
	}
	var pats []string
	for _, p := range pkgs {
		pats = append(pats, "./"+p)
	}
	ld, err := Load(pats)
	if err != nil {
		fmt.Fprintln(os.Stderr, "LOAD ERROR:", err)
		fmt.Printf("UNDECIDED: property=%s the tree could not be loaded with the contracts: %v\n", *prop, err)
		os.Exit(2)
	}
	known := loadKnown()
	baseline := loadBaseline()
	var results []*UnitResult
	var units []string
	var trusted []string
	contractSrc := map[string]string{}
	var drift []string
	for _, lp := range ld.Order {
		if lp.CF == nil {
			continue
		}
		for key, reason := range lp.Drift {
			for _, fc := range lp.CF.Funcs {
				if fc.Key == key && hasProp(fc.Props, *prop) {
					drift = append(drift, fmt.Sprintf("%s.%s: %s", lp.Name, key, reason))
				}
			}
		}
	}
	sort.Strings(drift)
	for _, lp := range ld.Order {
		if lp.CF == nil {
			continue
		}
		contractSrc[lp.Rel] = lp.CF.Source
		var keys []string
		for k := range lp.Units {
			keys = append(keys, k)
		}
		sort.Strings(keys)
		for _, k := range keys {
			u := lp.Units[k]
			if !unitHasProp(u, *prop) {
				continue
			}
			r := VerifyUnit(ld, u, cfg)
			if r.Trusted {
				trusted = append(trusted, r.Unit)
				continue
			}
			if r.Inlined {
				continue
			}
			units = append(units, r.Unit)
			results = append(results, r)
		}
		for _, l := range lp.Lemmas {
			if hasProp(l.L.Props, *prop) {
				r := VerifyLemma(ld, lp, l, cfg)
				if r.Trusted {
					trusted = append(trusted, r.Unit+" (axiom)")
					continue
				}
				units = append(units, r.Unit)
				results = append(results, r)
			}
		}
	}
	var all []*Obligation
	engineErrs := []string{}
	assumed := map[string]bool{}
	for _, r := range results {
		if r.Err != "" {
			engineErrs = append(engineErrs, r.Unit+": "+r.Err)
			continue
		}
		for _, a := range r.Assumed {
			assumed[a] = true
		}
		for _, o := range r.Obls {
			if hasProp(o.Props, *prop) {
				all = append(all, o)
			}
		}
	}
	genTime := time.Since(t0).Seconds()
	Discharge(all, cfg, 12)
	// thorough: confirm every unsat with a second solver
	crossDisagree := 0
	if *tier == "thorough" {
		crossDisagree = crossCheck(all, cfg)
	}
	// classify
	type viol struct {
		o      *Obligation
		replay string
		model  bool
	}
	var viols []viol
	var knownLines []string
	var unchecked []string
	discharged := 0
	claimed := 0
	bySolver := map[string]int{}
	solverTime := 0.0
	kfUsed := map[int]bool{}
	// Loop drift: a loop header no longer reads as the contract recorded it.  The annotations were
	// attached by ordinal all the same.  If every invariant and measure of the unit still verifies,
	// the proof of the unit is as good as any other and its failures count; if one of them does
	// not, the annotations do not fit the new loop and nothing about the unit is decided.
	loopDrift := map[string][]string{}
	for _, r := range results {
		if len(r.LoopDrift) > 0 {
			loopDrift[r.Unit] = r.LoopDrift
		}
		for _, d := range r.Dropped {
			fmt.Printf("NOTE: property=%s %s: %s; the rest of the contract must hold without them\n", *prop, r.Unit, d)
		}
		for _, d := range r.AssertDrift {
			drift = append(drift, "(this assertion only; the rest of the function is verified) "+d)
		}
	}
	invBroken := map[string]bool{}
	for _, o := range all {
		if _, ok := loopDrift[o.Func]; ok && o.Status != "discharged" && (o.Kind == "inv-init" || o.Kind == "inv-pres" || o.Kind == "dec") {
			invBroken[o.Func] = true
		}
	}
	for _, r := range results {
		if ld, ok := loopDrift[r.Unit]; ok {
			if invBroken[r.Unit] || r.Err != "" {
				drift = append(drift, r.Unit+": "+strings.Join(ld, "; ")+" (the recorded loop annotations do not verify on the new loop)")
			} else {
				fmt.Printf("NOTE: property=%s %s: loop header changed (%s); the recorded invariants still verify on it, the function is decided as usual\n", *prop, r.Unit, strings.Join(ld, "; "))
			}
		}
	}
	for _, o := range all {
		solverTime += o.Res.Time
		if invBroken[o.Func] {
			if o.Status == "discharged" {
				continue
			}
			unchecked = append(unchecked, o.Name+": contract drift (loop annotations do not fit the changed loop)")
			continue
		}
		if reason, ok := baseline[o.Name]; ok && o.Status == "undecided" {
			// a listed slow obligation that ran out of solver budget (loaded machine): undecided in
			// this run, never a violation; a refutation (sat) of the same obligation still is one
			fmt.Printf("UNDECIDED: property=%s %s ran out of solver budget (%s)\n", *prop, o.Name, reason)
			unchecked = append(unchecked, o.Name+": "+reason)
			continue
		}
		kidx := -1
		for i, k := range known {
			if k.Obligation == o.Name && k.Status == "open" {
				kidx = i
			}
		}
		if o.Status == "discharged" {
			claimed++
			discharged++
			bySolver[o.Res.Solver]++
			continue
		}
		if kidx >= 0 {
			kfUsed[kidx] = true
			knownLines = append(knownLines, fmt.Sprintf("KNOWN-FINDING: property=%s %s %s", *prop, o.Name, known[kidx].Description))
			continue
		}
		claimed++
		rp := writeReplay(*prop, o)
		viols = append(viols, viol{o, rp, o.Res.Status == "sat"})
	}
	for _, l := range knownLines {
		fmt.Println(l)
	}
	for _, e := range engineErrs {
		fmt.Printf("UNDECIDED: property=%s engine could not process %s\n", *prop, e)
		unchecked = append(unchecked, "engine: "+e)
	}
	for _, d := range drift {
		fmt.Printf("UNDECIDED: property=%s contract drift (function not verified in this run): %s\n", *prop, d)
		unchecked = append(unchecked, "contract drift: "+d)
	}
	replays := 0
	for _, v := range viols {
		// A violation carries a failing input only when the solver's counterexample was replayed
		// on the compiled code and the real code failed; otherwise the line says so.
		suffix := " no-failing-input-found"
		if v.model && replays < 4 {
			ro := tryReplay(v.o, repoDir)
			if ro.Attempted {
				replays++
			}
			appendReplay(v.replay, ro)
			if ro.Confirmed {
				suffix = ""
			}
		}
		fmt.Printf("VIOLATION property=%s replay=%s obligation=%s%s\n", *prop, v.replay, v.o.Name, suffix)
	}
	wall := time.Since(t0).Seconds()
	fmt.Printf("property %s: %d units, %d obligations, %d discharged, %d violations, %d known findings, %d unchecked, gen %.1fs, wall %.1fs\n",
		*prop, len(units), claimed, discharged, len(viols), len(knownLines), len(unchecked), genTime, wall)
	if !*noEvidence {
		writeEvidence(*prop, *tier, seed, units, trusted, all, claimed, discharged, len(viols), bySolver, solverTime, unchecked, knownLines, assumed, contractSrc, wall, crossDisagree)
	}
	if crossDisagree > 0 {
		fmt.Printf("BROKEN: %d solver disagreements (unsat vs sat)\n", crossDisagree)
		os.Exit(2)
	}
	if claimed == 0 {
		fmt.Printf("BROKEN: no obligations were generated for %s (vacuous check)\n", *prop)
		os.Exit(2)
	}
	if len(viols) > 0 {
		os.Exit(1)
	}
}

func crossCheck(all []*Obligation, cfg *Config) int {
	dis := 0
	for _, o := range all {
		if o.Status != "discharged" || o.Cover || o.Res.Solver == "simplifier" {
			continue
		}
		other := "z3"
		if o.Res.Solver == "z3" {
			other = "z3-new"
		}
		o.x.mu.Lock()
		qp := o.query(false)
		qa := o.query(true)
		o.x.mu.Unlock()
		r := SolveWith(other, qp, qa, 10000)
		if r.Status == "sat" && !strings.Contains(o.Res.Solver, "absmul") {
			dis++
			fmt.Printf("DISAGREEMENT %s: %s unsat, %s sat\n", o.Name, o.Res.Solver, other)
		}
		o.Cross = other + ":" + r.Status
	}
	return dis
}

func writeReplay(prop string, o *Obligation) string {
	dir := filepath.Join(verifDir, "replay", prop)
	_ = os.MkdirAll(dir, 0o755)
	p := filepath.Join(dir, sanitizeFile(o.Name)+".txt")
	var sb strings.Builder
	fmt.Fprintf(&sb, "obligation: %s\nkind: %s\nfunction: %s\nsource: %s\nstatus: %s\nsolver: %s (%s)\ntried: %s\n", o.Name, o.Kind, o.Func, o.Pos, o.Status, o.Res.Solver, o.Res.Status, strings.Join(o.Res.Tried, " "))
	if o.Res.Status == "sat" {
		fmt.Fprintf(&sb, "counterexample (values of the function's inputs, in declaration order of their leaves):\n%s\n", modelOf(o.Res.Output))
	} else {
		fmt.Fprintf(&sb, "no model: the verifier could not discharge this obligation (%s)\nsolver output:\n%s\n", o.Res.Status, o.Res.Output)
	}
	_ = os.WriteFile(p, []byte(sb.String()), 0o644)
	return p
}

func appendReplay(path string, ro replayOutcome) {
	f, err := os.OpenFile(path, os.O_APPEND|os.O_WRONLY, 0o644)
	if err != nil {
		return
	}
	defer f.Close()
	switch {
	case !ro.Attempted:
		fmt.Fprintf(f, "\nreplay on the compiled code: not attempted (%s)\n", ro.Why)
	case ro.Confirmed:
		fmt.Fprintf(f, "\nreplay on the compiled code: CONFIRMED - the real function fails on the counterexample\n--- generated test (injected with go test -overlay)\n%s\n--- output\n%s\n", ro.Test, ro.Output)
	default:
		fmt.Fprintf(f, "\nreplay on the compiled code: not confirmed (%s)\n--- generated test\n%s\n--- output\n%s\n", ro.Why, ro.Test, ro.Output)
	}
}

func writeEvidence(prop, tier string, seed int, units, trusted []string, all []*Obligation, claimed, discharged, nviol int, bySolver map[string]int, solverTime float64, unchecked, knownLines []string, assumed map[string]bool, contractSrc map[string]string, wall float64, crossDis int) {
	var samples []map[string]interface{}
	step := 1
	if len(all) > 12 {
		step = len(all) / 12
	}
	for i := 0; i < len(all) && len(samples) < 14; i += step {
		o := all[i]
		samples = append(samples, map[string]interface{}{
			"obligation": o.Name, "kind": o.Kind, "status": o.Status, "solver": o.Res.Solver, "time_s": o.Res.Time, "query_bytes": o.QuerySz, "source": o.Pos,
		})
	}
	var as []string
	for a := range assumed {
		as = append(as, a)
	}
	sort.Strings(as)
	std := []string{
		"the VC generator itself (SSA->SMT semantics of DESIGN 2.3-2.4), go/ssa, go/types",
		"SMT solvers z3 5.1.0 (z3-new), z3 4.8.12, cvc5 1.0.3",
		"64-bit platform (int = 64 bits)",
		"goroutine interleavings are not modelled: each function is verified sequentially",
	}
	for _, t := range trusted {
		as = append(as, "trusted (assumed, body not verified): "+t)
	}
	ev := map[string]interface{}{
		"property_id": prop,
		"tier":        tier,
		"seed":        seed,
		"level":       "proof",
		"wall_s":      wall,
		"violations":  nviol,
		"assumptions": append(std, as...),
		"coverage": map[string]interface{}{
			"obligations":              claimed,
			"discharged":               discharged,
			"checker_cmd":              fmt.Sprintf("bin/govc check --property %s --tier %s", prop, tier),
			"trusted_base":             std,
			"functions_under_contract": units,
			"by_solver":                bySolver,
			"solver_time_s":            solverTime,
			"unchecked":                unchecked,
			"bounded":                  []string{},
			"known_findings":           knownLines,
			"samples":                  samples,
			"contract_source":          contractSrc,
			"cross_solver_disagreements": crossDis,
			"explanation":              "Every obligation is generated from the SSA of /repo's current working tree (go/packages -tags verif) and discharged by an SMT solver for all inputs; obligations = post/pre/bounds/nil/panic/inv/dec/lock/cover of the functions listed in functions_under_contract that carry this property's tag.",
		},
	}
	_ = os.MkdirAll(filepath.Join(verifDir, "evidence"), 0o755)
	data, _ := json.MarshalIndent(ev, "", " ")
	_ = os.WriteFile(filepath.Join(verifDir, "evidence", prop+".json"), data, 0o644)
}
