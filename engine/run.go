package main

import (
	"path/filepath"
	"fmt"
	"go/ast"
	"go/token"
	"go/types"
	"os"
	"sort"
	"strings"

	"golang.org/x/tools/go/ssa"
)

type loopInfo struct {
	header  *ssa.BasicBlock
	blocks  map[*ssa.BasicBlock]bool
	ordinal int // AST ordinal, -1 unknown
	d0      *Term
}

type fnInfo struct {
	rpo     []*ssa.BasicBlock
	loops   map[*ssa.BasicBlock]*loopInfo
	isBack  map[[2]*ssa.BasicBlock]bool
	dbg     map[token.Pos][]*ssa.DebugRef
	mapped  bool
	mapErr  string
}


func (x *Exec) info(fn *ssa.Function) *fnInfo {
	if fi, ok := x.fnInfos[fn]; ok {
		return fi
	}
	fi := &fnInfo{loops: map[*ssa.BasicBlock]*loopInfo{}, isBack: map[[2]*ssa.BasicBlock]bool{}, dbg: map[token.Pos][]*ssa.DebugRef{}}
	x.fnInfos[fn] = fi
	if len(fn.Blocks) == 0 {
		return fi
	}
	// back edges
	for _, b := range fn.Blocks {
		for _, s := range b.Succs {
			if s.Dominates(b) {
				fi.isBack[[2]*ssa.BasicBlock{b, s}] = true
				li := fi.loops[s]
				if li == nil {
					li = &loopInfo{header: s, blocks: map[*ssa.BasicBlock]bool{s: true}, ordinal: -1}
					fi.loops[s] = li
				}
				// natural loop: all blocks that reach b without passing through s
				var stack []*ssa.BasicBlock
				if !li.blocks[b] {
					li.blocks[b] = true
					stack = append(stack, b)
				}
				for len(stack) > 0 {
					n := stack[len(stack)-1]
					stack = stack[:len(stack)-1]
					for _, p := range n.Preds {
						if !li.blocks[p] {
							li.blocks[p] = true
							stack = append(stack, p)
						}
					}
				}
			}
		}
	}
	// reverse post-order over forward edges
	seen := map[*ssa.BasicBlock]bool{}
	var post []*ssa.BasicBlock
	var dfs func(b *ssa.BasicBlock)
	dfs = func(b *ssa.BasicBlock) {
		seen[b] = true
		for _, s := range b.Succs {
			if fi.isBack[[2]*ssa.BasicBlock{b, s}] || seen[s] {
				continue
			}
			dfs(s)
		}
		post = append(post, b)
	}
	dfs(fn.Blocks[0])
	for i := len(post) - 1; i >= 0; i-- {
		fi.rpo = append(fi.rpo, post[i])
	}
	for _, b := range fn.Blocks {
		for _, ins := range b.Instrs {
			if d, ok := ins.(*ssa.DebugRef); ok && d.Object() != nil {
				p := d.Object().Pos()
				fi.dbg[p] = append(fi.dbg[p], d)
			}
		}
	}
	return fi
}

// mapLoops assigns AST loop ordinals to SSA loops of the unit's function.
func (x *Exec) mapLoops(fr *Frame) {
	fi := x.info(fr.fn)
	if fi.mapped || fr.unit == nil {
		return
	}
	fi.mapped = true
	u := fr.unit
	if len(fi.loops) == 0 {
		return
	}
	type span struct{ lo, hi token.Pos }
	var asts []ast.Stmt = u.AstLoops
	used := map[int]bool{}
	// process SSA loops from smallest (innermost) to largest
	var ls []*loopInfo
	for _, l := range fi.loops {
		ls = append(ls, l)
	}
	sort.Slice(ls, func(i, j int) bool {
		if len(ls[i].blocks) != len(ls[j].blocks) {
			return len(ls[i].blocks) < len(ls[j].blocks)
		}
		return ls[i].header.Index < ls[j].header.Index
	})
	for _, l := range ls {
		var lo, hi token.Pos
		for b := range l.blocks {
			for _, ins := range b.Instrs {
				p := ins.Pos()
				if _, isDbg := ins.(*ssa.DebugRef); isDbg {
					continue
				}
				if _, isPhi := ins.(*ssa.Phi); isPhi {
					continue // a phi carries the position of the variable's declaration
				}
				if !p.IsValid() {
					continue
				}
				if lo == 0 || p < lo {
					lo = p
				}
				if p > hi {
					hi = p
				}
			}
		}
		best := -1
		for k, s := range asts {
			if used[k] {
				continue
			}
			if lo == 0 {
				continue
			}
			if s.Pos() <= lo && hi < s.End() {
				if best < 0 || (asts[best].End()-asts[best].Pos()) > (s.End()-s.Pos()) {
					best = k
				}
			}
		}
		if best >= 0 {
			used[best] = true
			l.ordinal = best
		}
	}
	if len(fi.loops) != len(asts) {
		fi.mapErr = fmt.Sprintf("loop mapping: %d SSA loops vs %d source loops", len(fi.loops), len(asts))
	}
	for _, l := range fi.loops {
		if l.ordinal < 0 {
			fi.mapErr = "loop mapping: SSA loop without source loop"
		}
	}
}

type exitRec struct {
	st  *State
	res Val
	pos token.Pos
}

// runFunc symbolically executes fr.fn from entry; returns the merged exit state and results.
func (x *Exec) runFunc(fr *Frame, entry *State) (*State, Val) {
	tb := x.tb
	fn := fr.fn
	resT := fnResultType(fn)
	if len(fn.Blocks) == 0 {
		r := x.freshVal(resT, "ext_"+fn.Name())
		return entry, r
	}
	fi := x.info(fn)
	if len(fi.loops) > 0 {
		if fr.unit == nil || fr.spec {
			x.note("loop in inlined/spec function %s: result havoc", fn.Name())
			st := entry.clone()
			if !fr.spec {
				x.applyEff(st, x.effectsOf(fn))
			}
			r := x.freshVal(resT, "loopfn")
			x.assumeWF(st, resT, r.L)
			return st, r
		}
		x.mapLoops(fr)
		if fi.mapErr != "" {
			x.fatal("%s: %s", fn.Name(), fi.mapErr)
		}
	}
	out := map[*ssa.BasicBlock]*State{}
	var exits []exitRec
	edgeState := func(p, b *ssa.BasicBlock) *State {
		ps := out[p]
		if ps == nil || ps.dead {
			return nil
		}
		s := ps.clone()
		if iff, ok := p.Instrs[len(p.Instrs)-1].(*ssa.If); ok {
			c := x.val(fr, iff.Cond).L[0]
			if p.Succs[0] == b && p.Succs[1] == b {
				// both edges
			} else if p.Succs[0] == b {
				x.branch(s, c)
			} else {
				x.branch(s, tb.Not(c))
			}
		}
		return s
	}
	for _, b := range fi.rpo {
		li := fi.loops[b]
		var ins []*State
		var inPreds []*ssa.BasicBlock
		for _, p := range b.Preds {
			if fi.isBack[[2]*ssa.BasicBlock{p, b}] {
				continue
			}
			if s := edgeState(p, b); s != nil && !s.reach.IsFalse() {
				ins = append(ins, s)
				inPreds = append(inPreds, p)
			}
		}
		var st *State
		if b == fn.Blocks[0] {
			st = entry.clone()
		} else {
			st = x.mergeStates(ins)
		}
		// phis
		var inOwn []*Term
		{
			var rs []*Term
			for _, s := range ins {
				rs = append(rs, x.pcOf(s))
			}
			inOwn = x.ownConds(rs)
		}
		phiVal := func(phi *ssa.Phi) Val {
			var res *Val
			for k := len(inPreds) - 1; k >= 0; k-- {
				p := inPreds[k]
				idx := -1
				for j, q := range b.Preds {
					if q == p {
						idx = j
					}
				}
				v := x.val(fr, phi.Edges[idx])
				if res == nil {
					vv := Val{T: phi.Type(), L: append([]*Term{}, v.L...), Ptr: v.Ptr, Clo: v.Clo}
					res = &vv
				} else {
					for j := range res.L {
						res.L[j] = tb.Ite(inOwn[k], v.L[j], res.L[j])
					}
					res.Ptr, res.Clo = nil, nil
				}
			}
			if res == nil {
				v := x.freshVal(phi.Type(), "deadphi")
				return v
			}
			return *res
		}
		var phis []*ssa.Phi
		for _, i := range b.Instrs {
			if p, ok := i.(*ssa.Phi); ok {
				phis = append(phis, p)
			} else {
				break
			}
		}
		if li == nil {
			vals := make([]Val, len(phis))
			for k, p := range phis {
				vals[k] = phiVal(p)
			}
			for k, p := range phis {
				fr.vals[p] = vals[k]
			}
		} else {
			// loop header
			entryVals := map[*ssa.Phi]Val{}
			for _, p := range phis {
				entryVals[p] = phiVal(p)
			}
			var lu *LoopUnit
			if fr.unit != nil {
				lu = fr.unit.Loops[li.ordinal]
			}
			if !st.dead {
				x.checkInv(fr, st, li, lu, entryVals, "inv-init", nil)
			}
			// havoc
			x.havocLoop(fr, st, li)
			for _, p := range phis {
				v := x.freshVal(p.Type(), "phi_"+p.Comment)
				x.assumeWF(st, p.Type(), v.L)
				// pointer-typed phis keep address info only if all incoming agree (not tracked): opaque
				fr.vals[p] = v
			}
			if lu != nil && !st.dead {
				cur := map[*ssa.Phi]Val{}
				for _, p := range phis {
					cur[p] = fr.vals[p]
				}
				cl, d := x.evalInv(fr, st, li, lu, cur)
				for k, c := range cl {
					if os.Getenv("GOVC_DEBUG_INV") != "" {
						s := x.tb.Show(c)
						if len(s) > 400 {
							s = s[:400]
						}
						fmt.Fprintf(os.Stderr, "assume inv loop%d.%d: %s\n", li.ordinal, k, s)
					}
					x.assume(st, c)
				}
				li.d0 = d
			}
			x.autoInv(fr, st, li, phis, entryVals)
		}
		if st.dead || st.reach.IsFalse() {
			st.dead = true
			out[b] = st
			continue
		}
		// instructions
		terminated := false
		var amap *assertMap
		if fr.unit != nil && !fr.spec && len(fr.unit.Asserts) > 0 {
			amap = x.assertPoints(fr)
		}
		for k, insn := range b.Instrs {
			if amap != nil {
				for _, au := range amap.before[insn] {
					x.checkAssert(fr, st, au, b, k)
				}
			}
			if amap != nil && k > 0 {
				for _, au := range amap.after[b.Instrs[k-1]] {
					x.checkAssert(fr, st, au, b, k)
				}
			}
			switch t := insn.(type) {
			case *ssa.Phi:
				continue
			case *ssa.If, *ssa.Jump:
				continue
			case *ssa.Return:
				var ls []*Term
				for _, r := range t.Results {
					ls = append(ls, x.val(fr, r).L...)
				}
				exits = append(exits, exitRec{st.clone(), Val{T: resT, L: ls}, t.Pos()})
				terminated = true
				if fr == x.top && !fr.spec && fr.unit != nil && x.entry != nil && x.lockBalanceChecked(fr) {
					// every mutex is in the state it was in on entry (the contract says otherwise by
					// mentioning held(...) in a postcondition)
					hs := tb.Array(tb.BV(64), tb.Bool)
					x.addObl(fr, st, "lock", t, "balance", tb.Eq(x.heapGet(st, "g:held", hs), x.heapGet(x.entry, "g:held", hs)))
				}
				if fr == x.top && !fr.spec && fr.unit != nil && x.cfg.CoverReturns {
					pos := x.ld.Fset.Position(t.Pos())
					o := &Obligation{Name: fmt.Sprintf("%s#cover:return@%d", x.unitName(), len(exits)-1), Kind: "cover", Func: x.unitName(), Hyp: st.reach, Goal: x.tb.False,
						Cover: true, Advisory: true, Props: fr.unit.C.Props, Pos: fmt.Sprintf("%s:%d", filepath.Base(pos.Filename), pos.Line)}
					x.obls = append(x.obls, o)
				}
			case *ssa.Panic:
				if fr.spec {
					// spec functions are total: a panicking branch yields an arbitrary value
					r := x.freshVal(resT, "specpanic")
					exits = append(exits, exitRec{st.clone(), r, t.Pos()})
				} else {
					x.addObl(fr, st, "panic", t, x.panicText(fr, t), tb.False)
				}
				terminated = true
			default:
				x.execInstr(fr, st, insn)
			}
			if st.reach.IsFalse() {
				break
			}
		}
		out[b] = st
		if terminated {
			st2 := st.clone()
			st2.dead = true
			out[b] = st2
			continue
		}
		// back edges out of this block
		for _, s := range b.Succs {
			if fi.isBack[[2]*ssa.BasicBlock{b, s}] {
				hl := fi.loops[s]
				es := edgeState(b, s)
				if es == nil || es.reach.IsFalse() {
					continue
				}
				var lu *LoopUnit
				if fr.unit != nil {
					lu = fr.unit.Loops[hl.ordinal]
				}
				idx := -1
				for j, q := range s.Preds {
					if q == b {
						idx = j
					}
				}
				over := map[*ssa.Phi]Val{}
				for _, i := range s.Instrs {
					if p, ok := i.(*ssa.Phi); ok {
						over[p] = x.val(fr, p.Edges[idx])
					} else {
						break
					}
				}
				x.checkInv(fr, es, hl, lu, over, "inv-pres", hl.d0)
				x.autoBackEdge(fr, es, hl, over)
			}
		}
	}
	if len(exits) == 0 {
		dead := x.mergeStates(nil)
		return dead, x.freshVal(resT, "noret")
	}
	var sts []*State
	for _, e := range exits {
		sts = append(sts, e.st)
	}
	// merge results
	var live []exitRec
	for _, e := range exits {
		if !e.st.reach.IsFalse() {
			live = append(live, e)
		}
	}
	if len(live) == 0 {
		return x.mergeStates(nil), x.freshVal(resT, "noret")
	}
	if fr == x.top {
		x.topExits = live
	}
	res := Val{T: resT, L: append([]*Term{}, live[len(live)-1].res.L...)}
	var lrs []*Term
	for _, e := range live {
		lrs = append(lrs, x.pcOf(e.st))
	}
	lown := x.ownConds(lrs)
	for k := len(live) - 2; k >= 0; k-- {
		for j := range res.L {
			res.L[j] = tb.Ite(lown[k], live[k].res.L[j], res.L[j])
		}
	}
	return x.mergeStates(sts), res
}

func (x *Exec) lockBalanceChecked(fr *Frame) bool {
	if x.noLockHavoc(fr.fn) && !x.lockStateOn() {
		return false
	}
	for _, c := range fr.unit.C.Ensures {
		if strings.Contains(c.Expr, "held(") || strings.Contains(c.Expr, "lockswap(") || strings.Contains(c.Expr, "lockdrop(") {
			return false
		}
	}
	return true
}

func (x *Exec) panicText(fr *Frame, p *ssa.Panic) string {
	if mi, ok := p.X.(*ssa.MakeInterface); ok {
		if c, ok := mi.X.(*ssa.Const); ok && c.Value != nil {
			s := c.Value.ExactString()
			if len(s) > 50 {
				s = s[:50]
			}
			return "panic(" + s + ")"
		}
	}
	return "panic"
}

func fnResultType(fn *ssa.Function) types.Type {
	r := fn.Signature.Results()
	switch r.Len() {
	case 0:
		return types.NewTuple()
	case 1:
		return r.At(0).Type()
	}
	return r
}

func (x *Exec) fatal(f string, a ...interface{}) {
	panic(engineError(fmt.Sprintf(f, a...)))
}

type engineError string

// ---------- loops

func allocRoot(v ssa.Value) *ssa.Alloc {
	for {
		switch t := v.(type) {
		case *ssa.Alloc:
			return t
		case *ssa.FieldAddr:
			v = t.X
		case *ssa.IndexAddr:
			v = t.X
		default:
			return nil
		}
	}
}

type rowTarget struct {
	et  types.Type
	arr *Term
}

// definedOutside: v is a parameter, constant, or an instruction outside the loop.
func definedOutside(v ssa.Value, li *loopInfo) bool {
	switch t := v.(type) {
	case *ssa.Parameter, *ssa.Const, *ssa.Global, *ssa.FreeVar:
		return true
	case ssa.Instruction:
		return !li.blocks[t.Block()]
	}
	return false
}

// callMayAlloc: whether a call can create objects.  Mutex operations, atomics and callees whose
// bodies (transitively, to a small depth) contain no allocating instruction cannot; everything
// else is taken to allocate.
func (x *Exec) callMayAlloc(c *ssa.Call, depth int, seen map[*ssa.Function]bool) bool {
	if b, ok := c.Call.Value.(*ssa.Builtin); ok {
		switch b.Name() {
		case "len", "cap", "copy", "delete", "close", "min", "max":
			return false
		}
		return true
	}
	f := c.Call.StaticCallee()
	if f == nil {
		return true
	}
	name := f.String()
	if strings.HasPrefix(name, "sync/atomic.") || strings.HasPrefix(name, "(*sync/atomic.") {
		return false
	}
	switch name {
	case "(*sync.Mutex).Lock", "(*sync.Mutex).Unlock", "(*sync.RWMutex).Lock", "(*sync.RWMutex).Unlock",
		"(*sync.RWMutex).RLock", "(*sync.RWMutex).RUnlock", "(*sync.Mutex).TryLock":
		return false
	}
	if f.Blocks == nil || depth > 3 || seen[f] {
		return true
	}
	seen[f] = true
	for _, b := range f.Blocks {
		for _, ins := range b.Instrs {
			switch t := ins.(type) {
			case *ssa.Alloc:
				if t.Heap {
					return true
				}
			case *ssa.MakeSlice, *ssa.MakeMap, *ssa.MakeChan, *ssa.MakeClosure, *ssa.MakeInterface, *ssa.Convert, *ssa.Go, *ssa.Defer:
				return true
			case *ssa.BinOp:
				if bt, ok := t.X.Type().Underlying().(*types.Basic); ok && bt.Info()&types.IsString != 0 && t.Op == token.ADD {
					return true
				}
			case *ssa.Call:
				if x.callMayAlloc(t, depth+1, seen) {
					return true
				}
			}
		}
	}
	return false
}

func (x *Exec) havocLoop(fr *Frame, st *State, li *loopInfo) {
	tb := x.tb
	eff := &Effects{Classes: map[string]bool{}}
	allocs := false
	cells := map[*ssa.Alloc]bool{}
	var rows []rowTarget
	atomics := false
	defer func() {
		if atomics {
			x.havocClass(st, "g:adrop", tb.Array(tb.BV(64), tb.BV(64)))
		}
	}()
	var bl []*ssa.BasicBlock
	for b := range li.blocks {
		bl = append(bl, b)
	}
	sort.Slice(bl, func(i, j int) bool { return bl[i].Index < bl[j].Index })
	for _, b := range bl {
		for _, ins := range b.Instrs {
			if s, ok := ins.(*ssa.Store); ok {
				if a := allocRoot(s.Addr); a != nil && !a.Heap {
					if _, isArr := a.Type().(*types.Pointer).Elem().Underlying().(*types.Array); !isArr {
						cells[a] = true
						continue
					}
				}
				// store into an element of a slice/array that is loop-invariant: only that
				// array's row of the element heap changes
				if ia, ok := s.Addr.(*ssa.IndexAddr); ok && definedOutside(ia.X, li) {
					base := x.val(fr, ia.X)
					var arr *Term
					var et types.Type
					switch bt := base.T.Underlying().(type) {
					case *types.Slice:
						arr, et = base.L[0], bt.Elem()
					case *types.Pointer:
						if at, ok := bt.Elem().Underlying().(*types.Array); ok {
							if id, ok := x.arrayID(&Frame{spec: true, fn: fr.fn, lpkg: fr.lpkg, id: fr.id}, st, base, nil); ok {
								arr, et = id, at.Elem()
							}
						}
					}
					if arr != nil {
						if _, isS := isStruct(et); !isS {
							if _, isA := et.Underlying().(*types.Array); !isA {
								rows = append(rows, rowTarget{et, arr})
								continue
							}
						}
					}
				}
			}
			switch t := ins.(type) {
			case *ssa.Alloc, *ssa.MakeSlice, *ssa.MakeMap, *ssa.MakeChan, *ssa.MakeClosure, *ssa.MakeInterface, *ssa.Call, *ssa.Convert:
				if c, ok := t.(*ssa.Call); !ok || x.callMayAlloc(c, 0, map[*ssa.Function]bool{}) {
					allocs = true
					if os.Getenv("GOVC_DEBUG_ALLOC") != "" {
						fmt.Fprintf(os.Stderr, "loop allocates: %s\n", ins)
					}
				}
				if c, ok := t.(*ssa.Call); ok {
					if f := c.Call.StaticCallee(); f != nil && strings.HasPrefix(f.String(), "sync/atomic.") && !strings.HasPrefix(f.String(), "sync/atomic.Load") {
						atomics = true
					}
				}
			}
			x.instrEffects(ins, eff, map[*ssa.Function]bool{fr.fn: true})
		}
	}
	for a := range cells {
		k := cellKey{fr.id, a}
		if c, ok := st.cells[k]; ok {
			pt := a.Type().(*types.Pointer).Elem()
			v := x.freshVal(pt, "cell_"+a.Comment)
			x.assumeWF(st, pt, v.L)
			_ = c
			st.cells[k] = v.L
		}
	}
	x.applyEff(st, eff)
	if eff.Locks && x.lockStateOn() {
		x.havocLocks(st) // the loop body itself locks and unlocks: the invariant must say what is held
	}
	for _, rt := range rows {
		for _, l := range x.leaves(rt.et) {
			cls := elemClass(rt.et) + l.Path
			if eff.Top || eff.Classes[elemClass(rt.et)] {
				continue // whole class already forgotten
			}
			h := x.heapGet(st, cls, x.locArraySort(2, l.Sort))
			x.heapSet(st, cls, tb.Store(h, rt.arr, tb.Fresh("row", tb.Array(tb.BV(64), l.Sort))))
		}
	}
	if allocs {
		x.bumpNow(st)
	}
}

// evalPure evaluates v at the loop header given phi overrides (values defined in the header
// block from phis by pure operations are recomputed).
func (x *Exec) evalPure(fr *Frame, st *State, v ssa.Value, h *ssa.BasicBlock, over map[*ssa.Phi]Val, depth int) Val {
	if p, ok := v.(*ssa.Phi); ok {
		if o, ok := over[p]; ok {
			return o
		}
		return x.val(fr, v)
	}
	ins, ok := v.(ssa.Instruction)
	if !ok || ins.Block() != h || depth > 8 || over == nil {
		return x.val(fr, v)
	}
	switch t := v.(type) {
	case *ssa.BinOp:
		a := x.evalPure(fr, st, t.X, h, over, depth+1)
		b := x.evalPure(fr, st, t.Y, h, over, depth+1)
		sf := &Frame{spec: true, fn: fr.fn, lpkg: fr.lpkg}
		return x.binop(sf, st, t.Op, a, b, t.Type(), t)
	case *ssa.Convert:
		a := x.evalPure(fr, st, t.X, h, over, depth+1)
		if ts, _, ok := x.intSort(t.Type()); ok {
			if _, fs, ok2 := x.intSort(a.T); ok2 {
				return Val{T: t.Type(), L: []*Term{x.convertInt(a.L[0], fs, ts.W)}}
			}
		}
	case *ssa.ChangeType:
		a := x.evalPure(fr, st, t.X, h, over, depth+1)
		return Val{T: t.Type(), L: a.L}
	case *ssa.UnOp:
		// a variable kept in a cell (captured by a closure later on): its value at the loop head
		// is what the cell holds there
		if t.Op == token.MUL {
			if _, isAlloc := t.X.(*ssa.Alloc); isAlloc {
				if _, defined := fr.vals[t.X]; defined {
					sf := &Frame{spec: true, fn: fr.fn, lpkg: fr.lpkg, id: fr.id}
					r := x.load(sf, st, x.val(fr, t.X), nil)
					r.T = t.Type()
					return r
				}
			}
		}
	}
	return x.val(fr, v)
}

func (x *Exec) resolveLocal(fr *Frame, st *State, li *loopInfo, lr LocalRef, over map[*ssa.Phi]Val) Val {
	fi := x.info(fr.fn)
	refs := fi.dbg[lr.Pos]
	h := li.header
	// address-taken variable: load from its cell
	for _, d := range refs {
		if d.IsAddr {
			if _, defined := fr.vals[d.X]; !defined {
				if _, isIns := d.X.(ssa.Instruction); isIns {
					continue // the cell is created later in the function (not yet at this loop)
				}
			}
			pv := x.val(fr, d.X)
			sf := &Frame{spec: true, fn: fr.fn, lpkg: fr.lpkg, id: fr.id}
			v := x.load(sf, st, pv, nil)
			return v
		}
	}
	// a parameter that is never reassigned
	for _, p := range fr.fn.Params {
		if p.Name() == lr.Name && p.Object() != nil && p.Object().Pos() == lr.Pos {
			if v, ok := fr.vals[p]; ok {
				allAddr := len(refs) > 0
				for _, d := range refs {
					if !d.IsAddr {
						allAddr = false
					}
				}
				if allAddr {
					return v // only ever referenced through a cell that does not exist yet
				}
			}
		}
	}
	// phi at this header?
	for _, d := range refs {
		if p, ok := d.X.(*ssa.Phi); ok && p.Block() == h {
			return x.evalPure(fr, st, p, h, over, 0)
		}
	}
	for _, i := range h.Instrs {
		if p, ok := i.(*ssa.Phi); ok && p.Comment == lr.Name {
			return x.evalPure(fr, st, p, h, over, 0)
		}
	}
	// a reference inside the loop that is defined outside it (or in the header)
	var cands []ssa.Value
	for _, d := range refs {
		if li.blocks[d.Block()] {
			if ins, ok := d.X.(ssa.Instruction); ok {
				if !li.blocks[ins.Block()] || ins.Block() == h {
					cands = append(cands, d.X)
				}
			} else {
				cands = append(cands, d.X) // parameter / const
			}
		}
	}
	if len(cands) > 0 {
		return x.evalPure(fr, st, cands[0], h, over, 0)
	}
	// nearest reference or phi on the way up the dominator tree from the loop entry
	return x.resolveAt(fr, st, lr, h, 0)
}

func (x *Exec) evalInv(fr *Frame, st *State, li *loopInfo, lu *LoopUnit, over map[*ssa.Phi]Val) ([]*Term, *Term) {
	if lu == nil || lu.Fn == nil {
		return nil, nil
	}
	var args []Val
	top := fr
	nrecv := 0
	if fr.fn.Signature.Recv() != nil {
		nrecv = 1
	}
	for _, sp := range lu.Params {
		switch sp.Kind {
		case "recv":
			args = append(args, top.args[0])
		case "param":
			args = append(args, top.args[nrecv+sp.Index])
		case "old":
			args = append(args, top.oldVals[sp.Index])
		case "local":
			args = append(args, x.resolveLocal(fr, st, li, sp.Local, over))
		case "rangeidx":
			var ph *ssa.Phi
			for _, ins := range li.header.Instrs {
				if p, ok := ins.(*ssa.Phi); ok && p.Comment == "rangeindex" {
					ph = p
				}
			}
			if ph == nil {
				x.fatal("%s: rangeidx used in a loop that is not a range-over-slice loop", fr.fn.Name())
			}
			pv := x.evalPure(fr, st, ph, li.header, over, 0)
			args = append(args, Val{T: types.Typ[types.Int], L: []*Term{x.tb.Add(pv.L[0], x.tb.BVInt(1, 64))}})
		}
	}
	res := x.runSpec2(lu.Fn, st, x.entry, args)
	n := len(lu.C.Invariants)
	cl := res.L[:n]
	var d *Term
	if lu.C.Decreases != "" {
		d = res.L[n]
	}
	return cl, d
}

func (x *Exec) checkInv(fr *Frame, st *State, li *loopInfo, lu *LoopUnit, over map[*ssa.Phi]Val, kind string, d0 *Term) {
	if lu == nil {
		return
	}
	cl, d := x.evalInv(fr, st, li, lu, over)
	for k, c := range cl {
		lbl := fmt.Sprintf("loop%d.%d", li.ordinal, k)
		if lu.C.Invariants[k].Label != "" {
			lbl = fmt.Sprintf("loop%d.%s", li.ordinal, lu.C.Invariants[k].Label)
		}
		x.addObl(fr, st, kind, nil, lbl, c)
	}
	if kind == "inv-pres" && d != nil && d0 != nil {
		z := x.tb.BVInt(0, mathW)
		x.addObl(fr, st, "dec", nil, fmt.Sprintf("loop%d", li.ordinal), x.tb.And(x.tb.SLt(d, d0), x.tb.SLe(z, d0)))
	}
}

// autoInv: candidate invariants proved like any other and silently dropped when they do not hold:
// for an integer phi with constant positive step, `phi >= init` (in the phi's signedness).
func (x *Exec) autoInv(fr *Frame, st *State, li *loopInfo, phis []*ssa.Phi, entryVals map[*ssa.Phi]Val) {
	tb := x.tb
	fi := x.info(fr.fn)
	for _, p := range phis {
		_, signed, ok := x.intSort(p.Type())
		if !ok {
			continue
		}
		// all back-edge values must be phi + positive const
		okStep := true
		for j, e := range p.Edges {
			pred := p.Block().Preds[j]
			if !fi.isBack[[2]*ssa.BasicBlock{pred, p.Block()}] {
				continue
			}
			bo, ok := e.(*ssa.BinOp)
			if !ok || bo.Op != token.ADD || bo.X != p {
				okStep = false
				break
			}
			c, ok := bo.Y.(*ssa.Const)
			if !ok || c.Value == nil || c.Int64() <= 0 {
				okStep = false
			}
		}
		if !okStep {
			continue
		}
		init := entryVals[p].L[0]
		cur := fr.vals[p].L[0]
		var c *Term
		if signed {
			c = tb.SLe(init, cur)
		} else {
			c = tb.ULe(init, cur)
		}
		cand := &autoCand{fr: fr, li: li, phi: p, init: init, signed: signed}
		x.autoCands = append(x.autoCands, cand)
		// The candidates are assumed at the loop head; the obligations that make the assumption
		// legitimate (value on every back edge satisfies the candidate again) are generated at the
		// back edges (autoBackEdge) and are ordinary obligations of this unit.
		x.assume(st, c)
		// range-index pattern: phi = index-1, guard `phi+1 < L` with L fixed: also phi < L
		if signed {
			for _, ins := range p.Block().Instrs {
				add, ok := ins.(*ssa.BinOp)
				if !ok || add.Op != token.ADD || add.X != p {
					continue
				}
				for _, ins2 := range p.Block().Instrs {
					cmp, ok := ins2.(*ssa.BinOp)
					if !ok || cmp.Op != token.LSS || cmp.X != add || !definedOutside(cmp.Y, li) {
						continue
					}
					L := x.val(fr, cmp.Y).L[0]
					if L.Sort != cur.Sort {
						continue
					}
					cand.upper = L
					x.assume(st, tb.Implies(tb.SLt(init, L), tb.SLt(cur, L)))
				}
			}
		}
	}
	// references held in loop variables are allocated objects (or nil)
	for _, p := range phis {
		v := fr.vals[p]
		for k, l := range x.leaves(p.Type()) {
			if l.Kind == LRef && l.Path != "#val" && k < len(v.L) {
				x.assumeAllocated(st, v.L[k])
			}
		}
	}
}

type autoCand struct {
	fr     *Frame
	li     *loopInfo
	phi    *ssa.Phi
	init   *Term
	signed bool
	upper  *Term
}

// autoObligations emits, for every assumed automatic invariant, the obligation that makes the
// assumption legitimate: at each back edge the new value is >= init.
func (x *Exec) autoBackEdge(fr *Frame, st *State, li *loopInfo, over map[*ssa.Phi]Val) {
	tb := x.tb
	for _, c := range x.autoCands {
		if c.li != li || c.fr != fr {
			continue
		}
		nv, ok := over[c.phi]
		if !ok {
			continue
		}
		var g *Term
		if c.signed {
			g = tb.SLe(c.init, nv.L[0])
		} else {
			g = tb.ULe(c.init, nv.L[0])
		}
		x.addObl(fr, st, "inv-pres", nil, fmt.Sprintf("loop%d.auto:%s>=init", li.ordinal, c.phi.Comment), g)
		if c.upper != nil {
			x.addObl(fr, st, "inv-pres", nil, fmt.Sprintf("loop%d.auto:%s<bound", li.ordinal, c.phi.Comment), tb.Implies(tb.SLt(c.init, c.upper), tb.SLt(nv.L[0], c.upper)))
		}
	}
}

// ---------- point assertions

type assertMap struct {
	before map[ssa.Instruction][]*AssertUnit
	after  map[ssa.Instruction][]*AssertUnit
}

func (x *Exec) assertPoints(fr *Frame) *assertMap {
	if x.amap != nil {
		return x.amap
	}
	am := &assertMap{before: map[ssa.Instruction][]*AssertUnit{}, after: map[ssa.Instruction][]*AssertUnit{}}
	x.amap = am
	fi := x.info(fr.fn)
	for _, au := range fr.unit.Asserts {
		lo, hi := au.Stmt.Pos(), au.Stmt.End()
		var first, last ssa.Instruction
		for _, b := range fi.rpo {
			for _, ins := range b.Instrs {
				p := ins.Pos()
				if !p.IsValid() || p < lo || p >= hi {
					continue
				}
				if _, isPhi := ins.(*ssa.Phi); isPhi {
					continue
				}
				if first == nil {
					first = ins
				}
				if first != nil && ins.Block() == first.Block() {
					last = ins
				}
			}
		}
		if first == nil {
			x.fatal("%s: no instruction for the statement anchoring assertion %q", fr.fn.Name(), au.C.Anchor)
		}
		if au.C.When != "after" {
			am.before[first] = append(am.before[first], au)
		} else {
			am.after[last] = append(am.after[last], au)
		}
	}
	return am
}

// resolveAt finds the value of a source variable at the program point (b, idx): the nearest
// reference (DebugRef) or phi of that variable walking up the dominator tree.
func (x *Exec) resolveAt(fr *Frame, st *State, lr LocalRef, b *ssa.BasicBlock, idx int) Val {
	// a variable kept in a stack cell (struct locals whose fields are read or assigned): its
	// current contents, not the value some dominating definition gave it
	for _, a := range fr.fn.Locals {
		if a.Comment == lr.Name && a.Pos() == lr.Pos {
			if _, ok := st.cells[cellKey{fr.id, a}]; ok {
				sf := &Frame{spec: true, fn: fr.fn, lpkg: fr.lpkg, id: fr.id}
				if pt, ok := a.Type().(*types.Pointer); ok && (types.Identical(pt.Elem(), lr.Type) || typeKey(pt.Elem()) == typeKey(lr.Type)) {
					v := x.load(sf, st, x.val(fr, a), nil)
					return v
				}
			}
		}
	}
	for blk := b; blk != nil; blk = blk.Idom() {
		hi := len(blk.Instrs) - 1
		if blk == b {
			hi = idx - 1
		}
		for k := hi; k >= 0; k-- {
			switch t := blk.Instrs[k].(type) {
			case *ssa.DebugRef:
				if t.Object() != nil && t.Object().Pos() == lr.Pos {
					if t.IsAddr {
						sf := &Frame{spec: true, fn: fr.fn, lpkg: fr.lpkg, id: fr.id}
						return x.load(sf, st, x.val(fr, t.X), nil)
					}
					return x.val(fr, t.X)
				}
			case *ssa.Phi:
				if t.Comment == lr.Name && types.Identical(t.Type(), lr.Type) {
					return x.val(fr, t)
				}
			}
		}
	}
	for _, p := range fr.fn.Params {
		if p.Object() != nil && p.Object().Pos() == lr.Pos {
			return x.val(fr, p)
		}
	}
	x.fatal("%s: cannot resolve variable %q at assertion point (contract drift?)", fr.fn.Name(), lr.Name)
	return Val{}
}

func (x *Exec) checkAssert(fr *Frame, st *State, au *AssertUnit, b *ssa.BasicBlock, idx int) {
	if au.Fn == nil {
		return
	}
	var args []Val
	nrecv := 0
	if fr.fn.Signature.Recv() != nil {
		nrecv = 1
	}
	for _, sp := range au.Params {
		switch sp.Kind {
		case "recv":
			args = append(args, fr.args[0])
		case "param":
			args = append(args, fr.args[nrecv+sp.Index])
		case "old":
			args = append(args, fr.oldVals[sp.Index])
		case "local":
			args = append(args, x.resolveAt(fr, st, sp.Local, b, idx))
		case "snap":
			if v, ok := x.snaps[sp.Name]; ok {
				args = append(args, v)
			} else {
				// the snapshot point was not passed on this path: its value is unknown
				t := au.Fn.Params[len(args)].Type()
				v := x.freshVal(t, "snap_"+sp.Name)
				x.assumeWF(st, t, v.L)
				args = append(args, v)
			}
		}
	}
	res, facts := x.runSpecF(au.Fn, st, x.entry, args)
	if au.C.Snap != "" {
		if x.snaps == nil {
			x.snaps = map[string]Val{}
		}
		x.assume(st, facts)
		x.snaps[au.C.Snap] = res
		return
	}
	sub := st.clone()
	x.assume(sub, facts)
	lbl := fmt.Sprintf("%s %q.%d", au.C.When, au.C.Anchor, au.Index)
	if au.C.Clause.Label != "" {
		lbl = au.C.Clause.Label
	}
	save := x.curProps
	if len(au.C.Clause.Props) > 0 {
		x.curProps = au.C.Clause.Props
	}
	x.addObl(fr, sub, "assert", nil, lbl, res.L[0])
	x.curProps = save
	// an assertion that has been checked may be used afterwards (quantified ones are not carried
	// along: they are end results, and would only burden later queries)
	if !res.L[0].hasBnd {
		x.assume(st, x.tb.Implies(facts, res.L[0]))
	}
}

func init() { _ = strings.TrimSpace }
