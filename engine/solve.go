package main

import (
	"bytes"
	"context"
	"fmt"
	"os"
	"os/exec"
	"strings"
	"sync"
	"time"
)

type SolveResult struct {
	Status string // "unsat", "sat", "unknown", "timeout", "error"
	Solver string
	Time   float64
	Output string // full solver output (model if sat)
	Tried  []string
}

type solverSpec struct {
	name string
	args func(timeoutMs int) []string
	all  bool // wants (set-logic ALL)
}

var solvers = []solverSpec{
	{"z3-new", func(ms int) []string { return []string{"z3-new", "-in", fmt.Sprintf("-t:%d", ms)} }, false},
	{"z3", func(ms int) []string { return []string{"/usr/bin/z3", "-in", fmt.Sprintf("-t:%d", ms)} }, false},
	{"cvc5", func(ms int) []string {
		return []string{"cvc5", "--lang=smt2", fmt.Sprintf("--tlimit=%d", ms)}
	}, true},
}

var solverSem = make(chan struct{}, 14)

func runOne(ctx context.Context, sp solverSpec, q string, ms int) SolveResult {
	solverSem <- struct{}{}
	defer func() { <-solverSem }()
	if ctx.Err() != nil {
		return SolveResult{Status: "cancelled", Solver: sp.name}
	}
	a := sp.args(ms)
	cctx, cancel := context.WithTimeout(ctx, time.Duration(ms+2000)*time.Millisecond)
	defer cancel()
	cmd := exec.CommandContext(cctx, a[0], a[1:]...)
	cmd.Stdin = strings.NewReader(q)
	var out bytes.Buffer
	cmd.Stdout = &out
	cmd.Stderr = &out
	t0 := time.Now()
	_ = cmd.Run()
	el := time.Since(t0).Seconds()
	s := out.String()
	first := strings.TrimSpace(strings.SplitN(s, "\n", 2)[0])
	st := "error"
	switch {
	case first == "unsat":
		st = "unsat"
	case first == "sat":
		st = "sat"
	case first == "unknown", first == "timeout":
		st = "unknown"
	case cctx.Err() != nil:
		st = "timeout"
	case strings.Contains(s, "interrupted by timeout") || strings.Contains(s, "timeout"):
		st = "timeout"
	}
	return SolveResult{Status: st, Solver: sp.name, Time: el, Output: s}
}

// Solve: a short first attempt with z3-new only, then a race of all three.
func Solve(qPlain, qALL, qAbsMul string, timeoutMs int) SolveResult {
	var tried []string
	t0 := time.Now()
	first := timeoutMs / 8
	if first > 3000 {
		first = 3000
	}
	if first < 500 {
		first = 500
	}
	var am chan SolveResult
	if qAbsMul != "" {
		am = make(chan SolveResult, 1)
		go func() {
			r := runOne(context.Background(), solvers[0], qAbsMul, first)
			r.Solver = "z3-new(absmul)"
			am <- r
		}()
	}
	r := runOne(context.Background(), solvers[0], qPlain, first)
	tried = append(tried, fmt.Sprintf("%s:%s:%.2fs", r.Solver, r.Status, r.Time))
	if r.Status == "unsat" || r.Status == "sat" {
		r.Tried = tried
		return r
	}
	if am != nil {
		ra := <-am
		tried = append(tried, fmt.Sprintf("%s:%s:%.2fs", ra.Solver, ra.Status, ra.Time))
		if ra.Status == "unsat" {
			ra.Tried = tried
			return ra
		}
	}
	ctx, cancel := context.WithCancel(context.Background())
	defer cancel()
	ch := make(chan SolveResult, len(solvers)+1)
	var wg sync.WaitGroup
	if qAbsMul != "" {
		wg.Add(1)
		go func() {
			defer wg.Done()
			r := runOne(ctx, solvers[0], qAbsMul, timeoutMs)
			r.Solver = "z3-new(absmul)"
			if r.Status == "sat" {
				r.Status = "unknown" // a model of the weakened query proves nothing
			}
			ch <- r
		}()
	}
	for _, sp := range solvers {
		sp := sp
		wg.Add(1)
		go func() {
			defer wg.Done()
			q := qPlain
			if sp.all {
				q = qALL
			}
			ch <- runOne(ctx, sp, q, timeoutMs)
		}()
	}
	go func() { wg.Wait(); close(ch) }()
	var last SolveResult
	for r := range ch {
		if r.Status == "cancelled" {
			continue
		}
		tried = append(tried, fmt.Sprintf("%s:%s:%.2fs", r.Solver, r.Status, r.Time))
		if r.Status == "unsat" || r.Status == "sat" {
			cancel()
			r.Tried = tried
			r.Time = time.Since(t0).Seconds()
			return r
		}
		if last.Status == "" || r.Status == "unknown" {
			last = r
		}
	}
	last.Tried = tried
	last.Time = time.Since(t0).Seconds()
	if last.Status == "" {
		last.Status = "error"
	}
	return last
}

// CrossCheck asks one specific other solver (thorough tier).
func SolveWith(name string, qPlain, qALL string, timeoutMs int) SolveResult {
	for _, sp := range solvers {
		if sp.name == name {
			q := qPlain
			if sp.all {
				q = qALL
			}
			return runOne(context.Background(), sp, q, timeoutMs)
		}
	}
	return SolveResult{Status: "error"}
}

func dumpQuery(dir, name, q string) {
	if dir == "" {
		return
	}
	_ = os.MkdirAll(dir, 0o755)
	_ = os.WriteFile(dir+"/"+sanitizeFile(name)+".smt2", []byte(q), 0o644)
}

func sanitizeFile(s string) string {
	var sb strings.Builder
	for _, r := range s {
		switch {
		case r >= 'a' && r <= 'z', r >= 'A' && r <= 'Z', r >= '0' && r <= '9', r == '_', r == '.', r == '-', r == '#', r == '@':
			sb.WriteRune(r)
		default:
			sb.WriteByte('_')
		}
	}
	out := sb.String()
	if len(out) > 150 {
		out = out[:150]
	}
	return out
}
