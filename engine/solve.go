package main

import (
	"bytes"
	"context"
	"fmt"
	"os"
	"os/exec"
	"strings"
	"sync"
	"time"
)

type SolveResult struct {
	Status string // "unsat", "sat", "unknown", "timeout", "error"
	Solver string
	Time   float64
	Output string // full solver output (model if sat)
	Tried  []string
}

type solverSpec struct {
	name string
	args func(timeoutMs int) []string
	all  bool // wants (set-logic ALL)
}

var solvers = []solverSpec{
	{"z3-new", func(ms int) []string { return []string{"z3-new", "-in", fmt.Sprintf("-t:%d", ms)} }, false},
	{"z3", func(ms int) []string { return []string{"/usr/bin/z3", "-in", fmt.Sprintf("-t:%d", ms)} }, false},
	{"cvc5", func(ms int) []string {
		return []string{"cvc5", "--lang=smt2", fmt.Sprintf("--tlimit=%d", ms)}
	}, true},
	// cvc5 translating bit-vector arithmetic to integer arithmetic: decides the linear
	// length/offset inequalities that bit-blasting finds hard
	{"cvc5-int", func(ms int) []string {
		return []string{"cvc5", "--lang=smt2", "--solve-bv-as-int=sum", fmt.Sprintf("--tlimit=%d", ms)}
	}, true},
}

var solverSem = make(chan struct{}, 16)

func runOne(ctx context.Context, sp solverSpec, q string, ms int) SolveResult {
	solverSem <- struct{}{}
	defer func() { <-solverSem }()
	if ctx.Err() != nil {
		return SolveResult{Status: "cancelled", Solver: sp.name}
	}
	a := sp.args(ms)
	cctx, cancel := context.WithTimeout(ctx, time.Duration(ms+2000)*time.Millisecond)
	defer cancel()
	cmd := exec.CommandContext(cctx, a[0], a[1:]...)
	if sp.all && !strings.Contains(q, "(set-logic") {
		q = "(set-logic ALL)\n" + q
	}
	cmd.Stdin = strings.NewReader(q)
	var out bytes.Buffer
	cmd.Stdout = &out
	cmd.Stderr = &out
	t0 := time.Now()
	_ = cmd.Run()
	el := time.Since(t0).Seconds()
	s := out.String()
	first := strings.TrimSpace(strings.SplitN(s, "\n", 2)[0])
	st := "error"
	switch {
	case first == "unsat":
		st = "unsat"
	case first == "sat":
		st = "sat"
	case first == "unknown", first == "timeout":
		st = "unknown"
	case ctx.Err() != nil:
		st = "cancelled"
	case cctx.Err() != nil:
		st = "timeout"
	case strings.Contains(s, "interrupted by timeout") || strings.Contains(s, "timeout"):
		st = "timeout"
	}
	return SolveResult{Status: st, Solver: sp.name, Time: el, Output: s}
}

type job struct {
	sp     solverSpec
	q      string
	weak   bool // weakened query (absmul): only `unsat` is meaningful
	suffix string
}

func race(jobs []job, timeoutMs int, tried *[]string) (SolveResult, bool) {
	ctx, cancel := context.WithCancel(context.Background())
	defer cancel()
	ch := make(chan SolveResult, len(jobs))
	var wg sync.WaitGroup
	for _, j := range jobs {
		j := j
		wg.Add(1)
		go func() {
			defer wg.Done()
			r := runOne(ctx, j.sp, j.q, timeoutMs)
			r.Solver += j.suffix
			if j.weak && r.Status == "sat" {
				r.Status = "unknown"
			}
			ch <- r
		}()
	}
	go func() { wg.Wait(); close(ch) }()
	var last SolveResult
	for r := range ch {
		if r.Status == "cancelled" {
			continue
		}
		*tried = append(*tried, fmt.Sprintf("%s:%s:%.2fs", r.Solver, r.Status, r.Time))
		if r.Status == "unsat" || r.Status == "sat" {
			cancel()
			return r, true
		}
		if last.Status == "" || r.Status == "unknown" {
			last = r
		}
	}
	if last.Status == "" {
		last.Status = "error"
	}
	return last, false
}

// Solve: a short first attempt (z3-new exact, plus z3-new/cvc5 on the multiplication-abstracted
// query when there is one), then a race of all solvers on both encodings.
type weakQuery struct {
	q     string
	label string
}

func Solve(qPlain, qALL string, weak []weakQuery, timeoutMs int) SolveResult {
	var tried []string
	t0 := time.Now()
	first := timeoutMs / 8
	if first > 3000 {
		first = 3000
	}
	if first < 500 {
		first = 500
	}
	// stage 0: one solver on the exact query; most obligations end here
	zero := first / 3
	if zero < 400 {
		zero = 400
	}
	r, ok := race([]job{{sp: solvers[0], q: qPlain}}, zero, &tried)
	if !ok {
		// stage 1: the integer-arithmetic back end and the weakened encodings, short budget
		j1 := []job{{sp: solvers[3], q: qALL}}
		for _, w := range weak {
			j1 = append(j1, job{solvers[0], w.q, true, w.label})
		}
		if len(weak) > 0 {
			j1 = append(j1, job{solvers[3], weak[len(weak)-1].q, true, weak[len(weak)-1].label})
		}
		r, ok = race(j1, first, &tried)
	}
	if !ok {
		var j2 []job
		// every solver on the exact query; the weakened encodings on z3-new, the ones that abstract
		// multiplication or drop quantifiers also on cvc5 and its integer back end
		for _, sp := range solvers {
			q := qPlain
			if sp.all {
				q = qALL
			}
			j2 = append(j2, job{sp: sp, q: q})
		}
		for _, w := range weak {
			j2 = append(j2, job{solvers[0], w.q, true, w.label})
			if strings.Contains(w.label, "absmul") || strings.Contains(w.label, "noquant") {
				j2 = append(j2, job{solvers[2], w.q, true, w.label})
				j2 = append(j2, job{solvers[3], w.q, true, w.label})
			}
		}
		r, _ = race(j2, timeoutMs, &tried)
	}
	r.Tried = tried
	r.Time = time.Since(t0).Seconds()
	return r
}

// SolveWith asks one specific solver (cross-check in the thorough tier).
func SolveWith(name string, qPlain, qALL string, timeoutMs int) SolveResult {
	for _, sp := range solvers {
		if sp.name == name {
			q := qPlain
			if sp.all {
				q = qALL
			}
			return runOne(context.Background(), sp, q, timeoutMs)
		}
	}
	return SolveResult{Status: "error"}
}

func dumpQuery(dir, name, q string) {
	if dir == "" {
		return
	}
	_ = os.MkdirAll(dir, 0o755)
	_ = os.WriteFile(dir+"/"+sanitizeFile(name)+".smt2", []byte(q), 0o644)
}

func sanitizeFile(s string) string {
	var sb strings.Builder
	for _, r := range s {
		switch {
		case r >= 'a' && r <= 'z', r >= 'A' && r <= 'Z', r >= '0' && r <= '9', r == '_', r == '.', r == '-', r == '#', r == '@':
			sb.WriteRune(r)
		default:
			sb.WriteByte('_')
		}
	}
	out := sb.String()
	if len(out) > 150 {
		out = out[:150]
	}
	return out
}
