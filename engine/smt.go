package main

// Term DAG with hash-consing, light simplification and SMT-LIB2 printing.

import (
	"os"
	"fmt"
	"math/big"
	"sort"
	"strings"
)

type SortKind int

const (
	SBool SortKind = iota
	SBV
	SArray
)

type Sort struct {
	Kind SortKind
	W    int
	Idx  *Sort
	Elem *Sort
	str  string
}

func (s *Sort) String() string { return s.str }

type TB struct {
	SelectIte bool // term builder (one per verification unit; not goroutine safe)
	sorts  map[string]*Sort
	terms  map[string]*Term
	nextID int
	fresh  map[string]int
	decls  map[string]*Term   // free constants by name
	ufs    map[string]*UFDecl // uninterpreted functions
	Bool   *Sort
	True   *Term
	False  *Term
	// known(a, b) reports that the two index terms are known to differ (freshly allocated
	// references are pairwise distinct and differ from nil)
	known func(a, b *Term) bool
}

type UFDecl struct {
	Name string
	Args []*Sort
	Res  *Sort
}

type Term struct {
	Op     string // "var","bv","true","false", smt op names, "uf:<name>", "forall", "extract", "zext", "sext", "constarr"
	Args   []*Term
	Sort   *Sort
	ID     int
	Val    *big.Int // for bv consts
	Name   string   // for var / bound
	P1, P2 int      // for extract (hi, lo) / zext,sext (n)
	Bound  []*Term  // forall: bound vars
	hasBnd bool     // contains a bound variable occurrence (i.e. a quantifier or a bound variable)
	open   bool     // a bound variable occurs free
	key    string
}

func NewTB() *TB {
	tb := &TB{sorts: map[string]*Sort{}, terms: map[string]*Term{}, fresh: map[string]int{}, decls: map[string]*Term{}, ufs: map[string]*UFDecl{}}
	tb.SelectIte = os.Getenv("GOVC_NO_SELITE") == ""
	tb.Bool = tb.intern(&Sort{Kind: SBool, str: "Bool"})
	tb.True = tb.mk(&Term{Op: "true", Sort: tb.Bool})
	tb.False = tb.mk(&Term{Op: "false", Sort: tb.Bool})
	return tb
}

func (tb *TB) intern(s *Sort) *Sort {
	if o, ok := tb.sorts[s.str]; ok {
		return o
	}
	tb.sorts[s.str] = s
	return s
}

func (tb *TB) BV(w int) *Sort {
	return tb.intern(&Sort{Kind: SBV, W: w, str: fmt.Sprintf("(_ BitVec %d)", w)})
}

func (tb *TB) Array(idx, elem *Sort) *Sort {
	return tb.intern(&Sort{Kind: SArray, Idx: idx, Elem: elem, str: fmt.Sprintf("(Array %s %s)", idx.str, elem.str)})
}

func (tb *TB) mk(t *Term) *Term {
	var sb strings.Builder
	sb.WriteString(t.Op)
	sb.WriteByte('|')
	sb.WriteString(t.Sort.str)
	sb.WriteByte('|')
	if t.Val != nil {
		sb.WriteString(t.Val.String())
	}
	sb.WriteString(t.Name)
	if t.P1 != 0 || t.P2 != 0 {
		fmt.Fprintf(&sb, "|%d,%d", t.P1, t.P2)
	}
	for _, b := range t.Bound {
		fmt.Fprintf(&sb, "#b%d", b.ID)
	}
	for _, a := range t.Args {
		fmt.Fprintf(&sb, ",%d", a.ID)
		if a.hasBnd {
			t.hasBnd = true
		}
	}
	k := sb.String()
	if o, ok := tb.terms[k]; ok {
		return o
	}
	t.key = k
	tb.nextID++
	t.ID = tb.nextID
	if t.Op == "bound" {
		t.hasBnd = true
		t.open = true
	}
	// open: a bound variable occurs free (such a term cannot be named by a define-fun)
	for _, a := range t.Args {
		if a.open {
			t.open = true
		}
	}
	if t.Op == "forall" && t.open {
		// closed unless a variable other than its own is free in the body
		own := map[int]bool{}
		for _, b := range t.Bound {
			own[b.ID] = true
		}
		t.open = hasFreeBoundOtherThan(t.Args[0], own, map[int]bool{})
	}
	tb.terms[k] = t
	return t
}

func hasFreeBoundOtherThan(t *Term, own map[int]bool, seen map[int]bool) bool {
	if !t.open || seen[t.ID] {
		return false
	}
	seen[t.ID] = true
	if t.Op == "bound" {
		return !own[t.ID]
	}
	if t.Op == "forall" {
		inner := map[int]bool{}
		for k := range own {
			inner[k] = true
		}
		for _, b := range t.Bound {
			inner[b.ID] = true
		}
		return hasFreeBoundOtherThan(t.Args[0], inner, map[int]bool{})
	}
	for _, a := range t.Args {
		if hasFreeBoundOtherThan(a, own, seen) {
			return true
		}
	}
	return false
}

// ---- leaves

func (tb *TB) Var(name string, s *Sort) *Term {
	if t, ok := tb.decls[name]; ok {
		if t.Sort != s {
			panic("sort clash for " + name + ": " + t.Sort.str + " vs " + s.str)
		}
		return t
	}
	t := tb.mk(&Term{Op: "var", Sort: s, Name: name})
	tb.decls[name] = t
	return t
}

func (tb *TB) Fresh(prefix string, s *Sort) *Term {
	prefix = sanitize(prefix)
	for {
		n := tb.fresh[prefix]
		tb.fresh[prefix] = n + 1
		name := fmt.Sprintf("%s!%d", prefix, n)
		if _, ok := tb.decls[name]; !ok {
			return tb.Var(name, s)
		}
	}
}

func (tb *TB) BoundVar(prefix string, s *Sort) *Term {
	n := tb.fresh["$b"+prefix]
	tb.fresh["$b"+prefix] = n + 1
	return tb.mk(&Term{Op: "bound", Sort: s, Name: fmt.Sprintf("%s?%d", sanitize(prefix), n)})
}

func sanitize(s string) string {
	var sb strings.Builder
	for _, r := range s {
		switch {
		case r >= 'a' && r <= 'z', r >= 'A' && r <= 'Z', r >= '0' && r <= '9', r == '_', r == '.', r == '$', r == '!', r == '#', r == '%', r == '@', r == '~', r == '^', r == '&', r == '*', r == '+', r == '-', r == '/', r == '<', r == '>', r == '=', r == '?':
			sb.WriteRune(r)
		default:
			sb.WriteByte('_')
		}
	}
	return sb.String()
}

func (tb *TB) BVConst(v *big.Int, w int) *Term {
	m := new(big.Int).Lsh(big.NewInt(1), uint(w))
	x := new(big.Int).Mod(v, m)
	if x.Sign() < 0 {
		x.Add(x, m)
	}
	return tb.mk(&Term{Op: "bv", Sort: tb.BV(w), Val: x})
}

func (tb *TB) BVInt(v int64, w int) *Term { return tb.BVConst(big.NewInt(v), w) }
func (tb *TB) BVUint(v uint64, w int) *Term {
	return tb.BVConst(new(big.Int).SetUint64(v), w)
}

func (tb *TB) BoolConst(b bool) *Term {
	if b {
		return tb.True
	}
	return tb.False
}

func (t *Term) IsConst() bool { return t.Op == "bv" || t.Op == "true" || t.Op == "false" }
func (t *Term) IsTrue() bool  { return t.Op == "true" }
func (t *Term) IsFalse() bool { return t.Op == "false" }

func signedVal(t *Term) *big.Int {
	w := t.Sort.W
	v := new(big.Int).Set(t.Val)
	if v.Bit(w-1) == 1 {
		v.Sub(v, new(big.Int).Lsh(big.NewInt(1), uint(w)))
	}
	return v
}

// ---- boolean ops

func (tb *TB) Not(a *Term) *Term {
	switch a.Op {
	case "true":
		return tb.False
	case "false":
		return tb.True
	case "not":
		return a.Args[0]
	}
	return tb.mk(&Term{Op: "not", Args: []*Term{a}, Sort: tb.Bool})
}

func (tb *TB) And(as ...*Term) *Term {
	var out []*Term
	seen := map[int]bool{}
	for _, a := range as {
		if a.IsTrue() {
			continue
		}
		if a.IsFalse() {
			return tb.False
		}
		if a.Op == "and" {
			for _, b := range a.Args {
				if !seen[b.ID] {
					seen[b.ID] = true
					out = append(out, b)
				}
			}
			continue
		}
		if !seen[a.ID] {
			seen[a.ID] = true
			out = append(out, a)
		}
	}
	for _, a := range out {
		if a.Op == "not" && seen[a.Args[0].ID] {
			return tb.False
		}
	}
	if len(out) == 0 {
		return tb.True
	}
	if len(out) == 1 {
		return out[0]
	}
	return tb.mk(&Term{Op: "and", Args: out, Sort: tb.Bool})
}

func (tb *TB) Or(as ...*Term) *Term {
	var out []*Term
	seen := map[int]bool{}
	for _, a := range as {
		if a.IsFalse() {
			continue
		}
		if a.IsTrue() {
			return tb.True
		}
		if a.Op == "or" {
			for _, b := range a.Args {
				if !seen[b.ID] {
					seen[b.ID] = true
					out = append(out, b)
				}
			}
			continue
		}
		if !seen[a.ID] {
			seen[a.ID] = true
			out = append(out, a)
		}
	}
	for _, a := range out {
		if a.Op == "not" && seen[a.Args[0].ID] {
			return tb.True
		}
	}
	if len(out) == 0 {
		return tb.False
	}
	if len(out) == 1 {
		return out[0]
	}
	return tb.mk(&Term{Op: "or", Args: out, Sort: tb.Bool})
}

func (tb *TB) Implies(a, b *Term) *Term {
	if a.IsTrue() {
		return b
	}
	if a.IsFalse() || b.IsTrue() {
		return tb.True
	}
	if b.IsFalse() {
		return tb.Not(a)
	}
	return tb.mk(&Term{Op: "=>", Args: []*Term{a, b}, Sort: tb.Bool})
}

func (tb *TB) Eq(a, b *Term) *Term {
	if a.Sort != b.Sort {
		panic(fmt.Sprintf("Eq sort mismatch: %s vs %s (%s / %s)", a.Sort, b.Sort, tb.Show(a), tb.Show(b)))
	}
	if a == b {
		return tb.True
	}
	if a.IsConst() && b.IsConst() {
		return tb.False // distinct hash-consed constants
	}
	if tb.known != nil && tb.known(a, b) {
		return tb.False
	}
	if a.Sort.Kind == SBool {
		if a.IsTrue() {
			return b
		}
		if b.IsTrue() {
			return a
		}
		if a.IsFalse() {
			return tb.Not(b)
		}
		if b.IsFalse() {
			return tb.Not(a)
		}
	}
	if a.ID > b.ID {
		a, b = b, a
	}
	return tb.mk(&Term{Op: "=", Args: []*Term{a, b}, Sort: tb.Bool})
}

func (tb *TB) Ite(c, a, b *Term) *Term {
	if a.Sort != b.Sort {
		panic(fmt.Sprintf("Ite sort mismatch: %s vs %s", a.Sort, b.Sort))
	}
	if c.IsTrue() {
		return a
	}
	if c.IsFalse() {
		return b
	}
	if a == b {
		return a
	}
	if a.Sort.Kind == SBool {
		if a.IsTrue() && b.IsFalse() {
			return c
		}
		if a.IsFalse() && b.IsTrue() {
			return tb.Not(c)
		}
		if a.IsTrue() {
			return tb.Or(c, b)
		}
		if b.IsFalse() {
			return tb.And(c, a)
		}
		if a.IsFalse() {
			return tb.And(tb.Not(c), b)
		}
		if b.IsTrue() {
			return tb.Or(tb.Not(c), a)
		}
	}
	if c.Op == "not" {
		return tb.Ite(c.Args[0], b, a)
	}
	return tb.mk(&Term{Op: "ite", Args: []*Term{c, a, b}, Sort: a.Sort})
}

// ---- bit-vector ops

func mask(w int) *big.Int {
	return new(big.Int).Sub(new(big.Int).Lsh(big.NewInt(1), uint(w)), big.NewInt(1))
}

func (tb *TB) bin(op string, a, b *Term) *Term {
	if a.Sort != b.Sort {
		panic(fmt.Sprintf("%s sort mismatch: %s vs %s: %s / %s", op, a.Sort, b.Sort, tb.Show(a), tb.Show(b)))
	}
	w := a.Sort.W
	if a.Op == "bv" && b.Op == "bv" {
		x, y := a.Val, b.Val
		r := new(big.Int)
		ok := true
		switch op {
		case "bvadd":
			r.Add(x, y)
		case "bvsub":
			r.Sub(x, y)
		case "bvmul":
			r.Mul(x, y)
		case "bvand":
			r.And(x, y)
		case "bvor":
			r.Or(x, y)
		case "bvxor":
			r.Xor(x, y)
		case "bvshl":
			if y.Cmp(big.NewInt(int64(w))) >= 0 {
				r.SetInt64(0)
			} else {
				r.Lsh(x, uint(y.Int64()))
			}
		case "bvlshr":
			if y.Cmp(big.NewInt(int64(w))) >= 0 {
				r.SetInt64(0)
			} else {
				r.Rsh(x, uint(y.Int64()))
			}
		case "bvashr":
			sx := signedVal(a)
			if y.Cmp(big.NewInt(int64(w))) >= 0 {
				if sx.Sign() < 0 {
					r.SetInt64(-1)
				} else {
					r.SetInt64(0)
				}
			} else {
				r.Rsh(sx, uint(y.Int64()))
			}
		case "bvudiv":
			if y.Sign() == 0 {
				ok = false
			} else {
				r.Div(x, y)
			}
		case "bvurem":
			if y.Sign() == 0 {
				ok = false
			} else {
				r.Mod(x, y)
			}
		case "bvsdiv":
			if y.Sign() == 0 {
				ok = false
			} else {
				r.Quo(signedVal(a), signedVal(b))
			}
		case "bvsrem":
			if y.Sign() == 0 {
				ok = false
			} else {
				r.Rem(signedVal(a), signedVal(b))
			}
		default:
			ok = false
		}
		if ok {
			return tb.BVConst(r, w)
		}
	}
	isZero := func(t *Term) bool { return t.Op == "bv" && t.Val.Sign() == 0 }
	switch op {
	case "bvadd", "bvmul", "bvand", "bvor", "bvxor":
		if a.Op == "bv" || (b.Op != "bv" && a.ID > b.ID) {
			a, b = b, a
		}
	}
	switch op {
	case "bvadd":
		if isZero(a) {
			return b
		}
		if isZero(b) {
			return a
		}
		if a.Op == "bv" { // constants to the right
			a, b = b, a
		}
		// (x + c1) + c2
		if b.Op == "bv" && a.Op == "bvadd" && a.Args[1].Op == "bv" {
			return tb.bin("bvadd", a.Args[0], tb.bin("bvadd", a.Args[1], b))
		}
		// x + (y - x) = y
		if b.Op == "bvsub" && b.Args[1] == a {
			return b.Args[0]
		}
		if a.Op == "bvsub" && a.Args[1] == b {
			return a.Args[0]
		}
	case "bvsub":
		if isZero(b) {
			return a
		}
		if a == b {
			return tb.BVInt(0, w)
		}
		if b.Op == "bv" {
			return tb.bin("bvadd", a, tb.BVConst(new(big.Int).Neg(b.Val), w))
		}
	case "bvmul":
		if isZero(a) || isZero(b) {
			return tb.BVInt(0, w)
		}
		if a.Op == "bv" && a.Val.Cmp(big.NewInt(1)) == 0 {
			return b
		}
		if b.Op == "bv" && b.Val.Cmp(big.NewInt(1)) == 0 {
			return a
		}
	case "bvand":
		if isZero(a) || isZero(b) {
			return tb.BVInt(0, w)
		}
		if a == b {
			return a
		}
		if a.Op == "bv" && a.Val.Cmp(mask(w)) == 0 {
			return b
		}
		if b.Op == "bv" && b.Val.Cmp(mask(w)) == 0 {
			return a
		}
		if b.Op == "bv" {
			// (x & c1) & c2 = x & (c1&c2) ; (x | c1) & c2 = (x & c2) | (c1&c2)
			if a.Op == "bvand" && a.Args[1].Op == "bv" {
				return tb.bin("bvand", a.Args[0], tb.BVConst(new(big.Int).And(a.Args[1].Val, b.Val), w))
			}
			if a.Op == "bvor" && a.Args[1].Op == "bv" {
				return tb.bin("bvor", tb.bin("bvand", a.Args[0], b), tb.BVConst(new(big.Int).And(a.Args[1].Val, b.Val), w))
			}
		}
	case "bvor":
		if isZero(a) {
			return b
		}
		if isZero(b) {
			return a
		}
		if a == b {
			return a
		}
	case "bvxor":
		if isZero(a) {
			return b
		}
		if isZero(b) {
			return a
		}
	case "bvshl", "bvlshr", "bvashr":
		if isZero(b) {
			return a
		}
	}
	return tb.mk(&Term{Op: op, Args: []*Term{a, b}, Sort: a.Sort})
}

func (tb *TB) Add(a, b *Term) *Term  { return tb.bin("bvadd", a, b) }
func (tb *TB) Sub(a, b *Term) *Term  { return tb.bin("bvsub", a, b) }
func (tb *TB) Mul(a, b *Term) *Term  { return tb.bin("bvmul", a, b) }
func (tb *TB) BAnd(a, b *Term) *Term { return tb.bin("bvand", a, b) }
func (tb *TB) BOr(a, b *Term) *Term  { return tb.bin("bvor", a, b) }
func (tb *TB) BXor(a, b *Term) *Term { return tb.bin("bvxor", a, b) }
func (tb *TB) Shl(a, b *Term) *Term  { return tb.bin("bvshl", a, b) }
func (tb *TB) LShr(a, b *Term) *Term { return tb.bin("bvlshr", a, b) }
func (tb *TB) AShr(a, b *Term) *Term { return tb.bin("bvashr", a, b) }
func (tb *TB) UDiv(a, b *Term) *Term { return tb.bin("bvudiv", a, b) }
func (tb *TB) URem(a, b *Term) *Term { return tb.bin("bvurem", a, b) }
func (tb *TB) SDiv(a, b *Term) *Term { return tb.bin("bvsdiv", a, b) }
func (tb *TB) SRem(a, b *Term) *Term { return tb.bin("bvsrem", a, b) }

func (tb *TB) BNot(a *Term) *Term {
	if a.Op == "bv" {
		return tb.BVConst(new(big.Int).Xor(a.Val, mask(a.Sort.W)), a.Sort.W)
	}
	return tb.mk(&Term{Op: "bvnot", Args: []*Term{a}, Sort: a.Sort})
}

func (tb *TB) Neg(a *Term) *Term {
	if a.Op == "bv" {
		return tb.BVConst(new(big.Int).Neg(a.Val), a.Sort.W)
	}
	return tb.mk(&Term{Op: "bvneg", Args: []*Term{a}, Sort: a.Sort})
}

func (tb *TB) cmp(op string, a, b *Term) *Term {
	if a.Sort != b.Sort {
		panic(fmt.Sprintf("%s sort mismatch: %s vs %s: %s / %s", op, a.Sort, b.Sort, tb.Show(a), tb.Show(b)))
	}
	if a.Op == "bv" && b.Op == "bv" {
		var c int
		if op == "bvult" || op == "bvule" {
			c = a.Val.Cmp(b.Val)
		} else {
			c = signedVal(a).Cmp(signedVal(b))
		}
		switch op {
		case "bvult", "bvslt":
			return tb.BoolConst(c < 0)
		default:
			return tb.BoolConst(c <= 0)
		}
	}
	if a == b {
		return tb.BoolConst(op == "bvule" || op == "bvsle")
	}
	if op == "bvult" && b.Op == "bv" && b.Val.Sign() == 0 {
		return tb.False
	}
	if op == "bvule" && a.Op == "bv" && a.Val.Sign() == 0 {
		return tb.True
	}
	return tb.mk(&Term{Op: op, Args: []*Term{a, b}, Sort: tb.Bool})
}

func (tb *TB) ULt(a, b *Term) *Term { return tb.cmp("bvult", a, b) }
func (tb *TB) ULe(a, b *Term) *Term { return tb.cmp("bvule", a, b) }
func (tb *TB) SLt(a, b *Term) *Term { return tb.cmp("bvslt", a, b) }
func (tb *TB) SLe(a, b *Term) *Term { return tb.cmp("bvsle", a, b) }

func (tb *TB) Extract(hi, lo int, a *Term) *Term {
	if lo == 0 && hi == a.Sort.W-1 {
		return a
	}
	if a.Op == "bv" {
		v := new(big.Int).Rsh(a.Val, uint(lo))
		return tb.BVConst(v, hi-lo+1)
	}
	// extract of zext/sext where fully inside the original
	if (a.Op == "zext" || a.Op == "sext") && hi < a.Args[0].Sort.W {
		return tb.Extract(hi, lo, a.Args[0])
	}
	if a.Op == "extract" {
		return tb.Extract(hi+a.P2, lo+a.P2, a.Args[0])
	}
	return tb.mk(&Term{Op: "extract", Args: []*Term{a}, Sort: tb.BV(hi - lo + 1), P1: hi, P2: lo})
}

func (tb *TB) ZExt(a *Term, to int) *Term {
	n := to - a.Sort.W
	if n == 0 {
		return a
	}
	if n < 0 {
		return tb.Extract(to-1, 0, a)
	}
	if a.Op == "bv" {
		return tb.BVConst(a.Val, to)
	}
	if a.Op == "zext" {
		return tb.ZExt(a.Args[0], to)
	}
	return tb.mk(&Term{Op: "zext", Args: []*Term{a}, Sort: tb.BV(to), P1: n})
}

func (tb *TB) SExt(a *Term, to int) *Term {
	n := to - a.Sort.W
	if n == 0 {
		return a
	}
	if n < 0 {
		return tb.Extract(to-1, 0, a)
	}
	if a.Op == "bv" {
		return tb.BVConst(signedVal(a), to)
	}
	if a.Op == "zext" { // sign bit is zero
		return tb.ZExt(a.Args[0], to)
	}
	if a.Op == "sext" {
		return tb.SExt(a.Args[0], to)
	}
	return tb.mk(&Term{Op: "sext", Args: []*Term{a}, Sort: tb.BV(to), P1: n})
}

func (tb *TB) Concat(a, b *Term) *Term {
	if a.Op == "bv" && b.Op == "bv" {
		v := new(big.Int).Lsh(a.Val, uint(b.Sort.W))
		v.Or(v, b.Val)
		return tb.BVConst(v, a.Sort.W+b.Sort.W)
	}
	return tb.mk(&Term{Op: "concat", Args: []*Term{a, b}, Sort: tb.BV(a.Sort.W + b.Sort.W)})
}

// ---- arrays

func (tb *TB) Select(a, i *Term) *Term {
	if a.Sort.Kind != SArray || a.Sort.Idx != i.Sort {
		panic(fmt.Sprintf("Select sort mismatch: %s [%s]", a.Sort, i.Sort))
	}
	for a.Op == "store" {
		if a.Args[1] == i {
			return a.Args[2]
		}
		if a.Args[1].IsConst() && i.IsConst() {
			a = a.Args[0]
			continue
		}
		if tb.known != nil && tb.known(a.Args[1], i) {
			a = a.Args[0]
			continue
		}
		break
	}
	if a.Op == "constarr" {
		return a.Args[0]
	}
	if a.Op == "ite" && tb.SelectIte {
		// heap merged at a join: read both sides (keeps the plain reads visible as patterns)
		return tb.Ite(a.Args[0], tb.Select(a.Args[1], i), tb.Select(a.Args[2], i))
	}
	return tb.mk(&Term{Op: "select", Args: []*Term{a, i}, Sort: a.Sort.Elem})
}

func (tb *TB) Store(a, i, v *Term) *Term {
	if a.Sort.Kind != SArray || a.Sort.Idx != i.Sort || a.Sort.Elem != v.Sort {
		panic(fmt.Sprintf("Store sort mismatch: %s [%s] := %s", a.Sort, i.Sort, v.Sort))
	}
	if a.Op == "store" && a.Args[1] == i {
		a = a.Args[0]
	}
	return tb.mk(&Term{Op: "store", Args: []*Term{a, i, v}, Sort: a.Sort})
}

func (tb *TB) ConstArray(s *Sort, v *Term) *Term {
	return tb.mk(&Term{Op: "constarr", Args: []*Term{v}, Sort: s})
}

// ---- uninterpreted functions & quantifiers

func (tb *TB) UF(name string, res *Sort, args ...*Term) *Term {
	name = sanitize(name)
	d, ok := tb.ufs[name]
	if !ok {
		d = &UFDecl{Name: name, Res: res}
		for _, a := range args {
			d.Args = append(d.Args, a.Sort)
		}
		tb.ufs[name] = d
	} else {
		if d.Res != res || len(d.Args) != len(args) {
			panic("UF signature clash for " + name)
		}
		for i, a := range args {
			if d.Args[i] != a.Sort {
				panic("UF arg sort clash for " + name)
			}
		}
	}
	if len(args) == 0 {
		return tb.Var(name, res)
	}
	return tb.mk(&Term{Op: "uf:" + name, Args: args, Sort: res, Name: name})
}

func (tb *TB) Forall(bound []*Term, body *Term) *Term {
	if body.IsTrue() || body.IsFalse() {
		return body
	}
	t := &Term{Op: "forall", Args: []*Term{body}, Sort: tb.Bool, Bound: bound}
	r := tb.mk(t)
	// r.hasBnd was set from body; it stays true if other (outer) bound vars occur. Conservatively keep.
	return r
}

// ---- printing

func bvLit(v *big.Int, w int) string {
	if w%4 == 0 {
		s := v.Text(16)
		if len(s) < w/4 {
			s = strings.Repeat("0", w/4-len(s)) + s
		}
		return "#x" + s
	}
	s := v.Text(2)
	if len(s) < w {
		s = strings.Repeat("0", w-len(s)) + s
	}
	return "#b" + s
}

type printer struct {
	tb     *TB
	names  map[int]string // hoisted definitions
	absMul bool           // print non-constant multiplications as an uninterpreted function
	mulW   map[int]bool
}

func (p *printer) str(t *Term, sb *strings.Builder) {
	if n, ok := p.names[t.ID]; ok {
		sb.WriteString(n)
		return
	}
	p.raw(t, sb)
}

func symName(n string) string { return "|" + n + "|" }

func (p *printer) raw(t *Term, sb *strings.Builder) {
	switch t.Op {
	case "true", "false":
		sb.WriteString(t.Op)
	case "bv":
		sb.WriteString(bvLit(t.Val, t.Sort.W))
	case "var", "bound":
		sb.WriteString(symName(t.Name))
	case "extract":
		fmt.Fprintf(sb, "((_ extract %d %d) ", t.P1, t.P2)
		p.str(t.Args[0], sb)
		sb.WriteByte(')')
	case "zext":
		fmt.Fprintf(sb, "((_ zero_extend %d) ", t.P1)
		p.str(t.Args[0], sb)
		sb.WriteByte(')')
	case "sext":
		fmt.Fprintf(sb, "((_ sign_extend %d) ", t.P1)
		p.str(t.Args[0], sb)
		sb.WriteByte(')')
	case "constarr":
		fmt.Fprintf(sb, "((as const %s) ", t.Sort.str)
		p.str(t.Args[0], sb)
		sb.WriteByte(')')
	case "forall":
		sb.WriteString("(forall (")
		for _, b := range t.Bound {
			fmt.Fprintf(sb, "(%s %s)", symName(b.Name), b.Sort.str)
		}
		sb.WriteString(") ")
		p.str(t.Args[0], sb)
		sb.WriteByte(')')
	default:
		op := t.Op
		if strings.HasPrefix(op, "uf:") {
			op = symName(t.Name)
		}
		if p.absMul && op == "bvmul" && t.Args[0].Op != "bv" && t.Args[1].Op != "bv" {
			op = fmt.Sprintf("|absmul%d|", t.Sort.W)
			p.mulW[t.Sort.W] = true
		}
		sb.WriteByte('(')
		sb.WriteString(op)
		for _, a := range t.Args {
			sb.WriteByte(' ')
			p.str(a, sb)
		}
		sb.WriteByte(')')
	}
}

// Query renders an SMT-LIB2 script asserting all of `asserts`; check-sat; optionally get-value of `want`.
func (tb *TB) Query(asserts []*Term, want []*Term, logicALL bool) string {
	return tb.QueryOpt(asserts, want, logicALL, false)
}

// QueryOpt: with absMul, products of two non-constant terms are printed as applications of an
// uninterpreted function (a sound weakening: an `unsat` answer carries over to the exact query).
func (tb *TB) QueryOpt(asserts []*Term, want []*Term, logicALL bool, absMul bool) string {
	// collect reachable nodes, count references
	refs := map[int]int{}
	var order []*Term
	seen := map[int]bool{}
	var visit func(t *Term)
	visit = func(t *Term) {
		refs[t.ID]++
		if seen[t.ID] {
			return
		}
		seen[t.ID] = true
		for _, a := range t.Args {
			visit(a)
		}
		order = append(order, t) // post-order: args first
	}
	for _, a := range asserts {
		visit(a)
	}
	for _, a := range want {
		visit(a)
	}
	var sb strings.Builder
	if logicALL {
		sb.WriteString("(set-option :produce-models true)\n(set-logic ALL)\n")
	} else {
		sb.WriteString("(set-option :produce-models true)\n")
	}
	// declarations
	var vars []*Term
	ufsUsed := map[string]bool{}
	for _, t := range order {
		if t.Op == "var" {
			vars = append(vars, t)
		}
		if strings.HasPrefix(t.Op, "uf:") {
			ufsUsed[t.Name] = true
		}
	}
	sort.Slice(vars, func(i, j int) bool { return vars[i].Name < vars[j].Name })
	for _, v := range vars {
		fmt.Fprintf(&sb, "(declare-fun %s () %s)\n", symName(v.Name), v.Sort.str)
	}
	var ufn []string
	for n := range ufsUsed {
		ufn = append(ufn, n)
	}
	sort.Strings(ufn)
	for _, n := range ufn {
		d := tb.ufs[n]
		fmt.Fprintf(&sb, "(declare-fun %s (", symName(n))
		for i, a := range d.Args {
			if i > 0 {
				sb.WriteByte(' ')
			}
			sb.WriteString(a.str)
		}
		fmt.Fprintf(&sb, ") %s)\n", d.Res.str)
	}
	p := &printer{tb: tb, names: map[int]string{}, absMul: absMul, mulW: map[int]bool{}}
	if absMul {
		for _, t := range order {
			if t.Op == "bvmul" && t.Args[0].Op != "bv" && t.Args[1].Op != "bv" {
				if !p.mulW[t.Sort.W] {
					p.mulW[t.Sort.W] = true
					fmt.Fprintf(&sb, "(declare-fun |absmul%d| (%s %s) %s)\n", t.Sort.W, t.Sort.str, t.Sort.str, t.Sort.str)
				}
			}
		}
	}
	for _, t := range order {
		if len(t.Args) == 0 || t.open {
			continue
		}
		if refs[t.ID] > 1 || t.Op == "store" || t.Op == "ite" {
			var b strings.Builder
			p.raw(t, &b)
			name := fmt.Sprintf("t%d", t.ID)
			fmt.Fprintf(&sb, "(define-fun %s () %s %s)\n", name, t.Sort.str, b.String())
			p.names[t.ID] = name
		}
	}
	for _, a := range asserts {
		sb.WriteString("(assert ")
		p.str(a, &sb)
		sb.WriteString(")\n")
	}
	if absMul {
		// ground instances of laws of multiplication that hold for bvmul when no wrap-around is
		// possible (operands in [0, 2^(w/2-1))): sign, strict monotonicity in a shared factor
		var prods []*Term
		for _, t := range order {
			if t.Op == "bvmul" && t.Args[0].Op != "bv" && t.Args[1].Op != "bv" && !t.open {
				prods = append(prods, t)
			}
		}
		ps := func(t *Term) string { var b strings.Builder; p.str(t, &b); return b.String() }
		for i, t := range prods {
			w := t.Sort.W
			zero := bvLit(big.NewInt(0), w)
			L := bvLit(new(big.Int).Lsh(big.NewInt(1), uint(w/2-1)), w)
			L2 := bvLit(new(big.Int).Lsh(big.NewInt(1), uint(w-2)), w)
			rng := func(s string) string { return fmt.Sprintf("(bvsle %s %s) (bvslt %s %s)", zero, s, s, L) }
			x, y, m := ps(t.Args[0]), ps(t.Args[1]), ps(t)
			fmt.Fprintf(&sb, "(assert (=> (and %s %s) (and (bvsle %s %s) (bvslt %s %s))))\n", rng(x), rng(y), zero, m, m, L2)
			for _, u := range prods[i+1:] {
				if u.Sort.W != w {
					continue
				}
				for ti := 0; ti < 2; ti++ {
					for ui := 0; ui < 2; ui++ {
						c := ps(t.Args[ti])
						c2 := ps(u.Args[ui])
						a := ps(t.Args[1-ti])
						b := ps(u.Args[1-ui])
						um := ps(u)
						same := fmt.Sprintf("(= %s %s)", c, c2)
						fmt.Fprintf(&sb, "(assert (=> (and %s %s %s %s (bvslt %s %s)) (bvsle (bvadd %s %s) %s)))\n", same, rng(a), rng(b), rng(c), a, b, m, c, um)
						fmt.Fprintf(&sb, "(assert (=> (and %s %s %s %s (bvslt %s %s)) (bvsle (bvadd %s %s) %s)))\n", same, rng(a), rng(b), rng(c), b, a, um, c, m)
						fmt.Fprintf(&sb, "(assert (=> (and %s (= %s %s)) (= %s %s)))\n", same, a, b, m, um)
					}
				}
			}
		}
		// ground instances of commutativity and of the zero law for every abstracted product
		for _, t := range order {
			if t.Op == "bvmul" && t.Args[0].Op != "bv" && t.Args[1].Op != "bv" && !t.open {
				var a, b, m strings.Builder
				p.str(t.Args[0], &a)
				p.str(t.Args[1], &b)
				p.str(t, &m)
				w := t.Sort.W
				zero := bvLit(big.NewInt(0), w)
				one := bvLit(big.NewInt(1), w)
				fmt.Fprintf(&sb, "(assert (= %s (|absmul%d| %s %s)))\n", m.String(), w, b.String(), a.String())
				fmt.Fprintf(&sb, "(assert (=> (or (= %s %s) (= %s %s)) (= %s %s)))\n", a.String(), zero, b.String(), zero, m.String(), zero)
				fmt.Fprintf(&sb, "(assert (=> (= %s %s) (= %s %s)))\n", a.String(), one, m.String(), b.String())
				fmt.Fprintf(&sb, "(assert (=> (= %s %s) (= %s %s)))\n", b.String(), one, m.String(), a.String())
			}
		}
	}
	sb.WriteString("(check-sat)\n")
	if len(want) > 0 {
		sb.WriteString("(get-value (")
		for _, w := range want {
			p.str(w, &sb)
			sb.WriteByte(' ')
		}
		sb.WriteString("))\n")
	}
	return sb.String()
}

// Show renders a term for diagnostics (no sharing).
func (tb *TB) Show(t *Term) string {
	var sb strings.Builder
	p := &printer{tb: tb, names: map[int]string{}}
	var lim func(t *Term, d int)
	lim = func(t *Term, d int) {
		if d > 6 {
			sb.WriteString("…")
			return
		}
		if len(t.Args) == 0 || t.Op == "extract" || t.Op == "zext" || t.Op == "sext" {
			p.raw(t, &sb)
			return
		}
		sb.WriteByte('(')
		sb.WriteString(t.Op)
		for _, a := range t.Args {
			sb.WriteByte(' ')
			lim(a, d+1)
		}
		sb.WriteByte(')')
	}
	lim(t, 0)
	return sb.String()
}
