#!/bin/sh
# Copies the contract files from the mirror (/verif/contracts) into /repo and commits them there
# as a hook commit (comment-only files behind the build tag `verif`).
set -e
cd /verif/contracts
find . -name 'verif_contracts*.go' | while read f; do
  d=$(dirname "$f")
  cp "$f" "/repo/$d/"
  git -C /repo add "$d/$(basename "$f")"
done
if ! git -C /repo diff --cached --quiet; then
  git -C /repo commit -q -m "verif: contracts for the govc deductive verifier (comment-only, build tag verif)"
  echo "committed hook: $(git -C /repo log --format=%h -1)"
else
  echo "contracts already in sync"
fi
