#!/bin/sh
# usage: try_seed_wt.sh <seed-id> [property...]   (default: the seed's own property)
# Runs the quick check(s) against a scratch worktree of /repo with the seeded change applied
# (/repo itself is not touched, so several can run side by side); the worktree is removed afterwards.
id=$1; shift
d=/verif/seeded/$id
props="$@"; [ -z "$props" ] && props=$(python3 -c "import json; print(json.load(open('$d/meta.json'))['property'])")
wt=/tmp/try_$id.$$
git -C /repo worktree add -q --detach $wt HEAD || exit 2
trap 'git -C /repo worktree remove --force $wt >/dev/null 2>&1; rm -rf $wt' EXIT
git -C $wt apply $d/patch.diff || { echo "$id: patch does not apply"; exit 3; }
cd /verif
for p in $props; do
  bin/govc check --property $p --tier quick --no-evidence --repo $wt > /tmp/try_$id.$p.out 2>&1; rc=$?
  echo "== $id $p exit=$rc"
  grep -E "^VIOLATION|^property|^UNDECIDED|^BROKEN|LOAD ERROR|^NOTE" /tmp/try_$id.$p.out | sed "s#replay=[^ ]* ##" | cut -c1-300
done
