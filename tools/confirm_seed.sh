#!/bin/sh
# usage: confirm_seed.sh <seed-dir>
# Confirms, in a scratch worktree of /repo (removed afterwards), that the seeded change
#  (1) compiles, (2) passes the whole existing test suite, (3) makes the demo fail,
#  and that the demo passes on the clean tree.  Writes <seed-dir>/confirm.log and prints a summary.
export GOFLAGS=-mod=mod GOPROXY=off GOSUMDB=off GOTOOLCHAIN=local
d=$(cd "$1" && pwd)
id=$(basename "$d")
wt=/tmp/confirm_$id.$$
log=$d/confirm.log
: > "$log"
git -C /repo worktree add -q --detach "$wt" HEAD >>"$log" 2>&1 || { echo "$id: worktree failed"; exit 2; }
demodir=$(python3 -c "import json,sys; print(json.load(open('$d/meta.json')).get('demo_dir','.'))")
cleanup() { git -C /repo worktree remove --force "$wt" >/dev/null 2>&1; rm -rf "$wt"; }
trap cleanup EXIT
cd "$wt"
cp "$d/demo_test.go" "$demodir/seed_demo_test.go"
echo "== demo on clean tree" >>"$log"
if go test -vet=off -count=1 -timeout 120s -run TestSeedDemo "./$demodir/" >>"$log" 2>&1; then clean=pass; else clean=FAIL; fi
rm "$demodir/seed_demo_test.go"
if ! git apply "$d/patch.diff" >>"$log" 2>&1; then echo "$id: patch does not apply"; exit 3; fi
echo "== build with patch" >>"$log"
if go build ./... >>"$log" 2>&1 && go test -vet=off -count=1 -run '^$' ./... >>"$log" 2>&1; then build=ok; else build=FAIL; fi
echo "== full suite with patch" >>"$log"
if go test -vet=off -count=1 -timeout 25m ./... >>"$log" 2>&1; then suite=pass; else suite=FAIL; fi
cp "$d/demo_test.go" "$demodir/seed_demo_test.go"
echo "== demo with patch" >>"$log"
if go test -vet=off -count=1 -timeout 120s -run TestSeedDemo "./$demodir/" >>"$log" 2>&1; then patched=pass; else patched=fail; fi
res="clean_demo=$clean build=$build suite=$suite patched_demo=$patched"
echo "$id: $res" | tee -a "$log"
python3 - "$d" "$res" <<'EOF'
import json,sys
d,res=sys.argv[1],sys.argv[2]
m=json.load(open(d+'/meta.json'))
m['confirmed']=res
m['confirmed_ok']= res=="clean_demo=pass build=ok suite=pass patched_demo=fail"
json.dump(m,open(d+'/meta.json','w'),indent=1)
EOF
