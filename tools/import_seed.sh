#!/bin/sh
# usage: import_seed.sh <outdir (…/X or …/Y)> <new-id>
# copies a sub-agent's deliverable into seeded/<id>/ and confirms it (confirm_seed.sh)
src=$1; id=$2
d=/verif/seeded/$id
mkdir -p $d
cp $src/patch.diff $src/demo_test.go $src/meta.json $d/
python3 - $d $id <<'PY'
import json,sys
d,id=sys.argv[1],sys.argv[2]
m=json.load(open(d+'/meta.json')); m['id']=id
json.dump(m,open(d+'/meta.json','w'),indent=1)
PY
/verif/tools/confirm_seed.sh $d
