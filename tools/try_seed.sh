#!/bin/sh
# usage: try_seed.sh <seed-dir> <property> [more properties...]
# Applies the seeded change to /repo, runs the quick checks, and restores /repo.
d=$(cd "$1" && pwd); shift
cd /verif
if ! git -C /repo apply --check "$d/patch.diff" 2>/dev/null; then echo "patch does not apply"; exit 3; fi
git -C /repo apply "$d/patch.diff"
for p in "$@"; do
  bin/govc check --property "$p" --tier quick --no-evidence > /tmp/try_seed.out 2>&1
  rc=$?
  grep -E "^VIOLATION|^property|^UNDECIDED|^BROKEN|LOAD ERROR" /tmp/try_seed.out | cut -c1-400
  echo "exit($p)=$rc"
done
git -C /repo apply -R "$d/patch.diff"
