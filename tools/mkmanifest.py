#!/usr/bin/env python3
"""Regenerates /verif/MANIFEST.json from the table below (kept in one place so that the
claims, the not_applicable list and the commands cannot drift apart)."""
import json, subprocess, sys

ENV = "GOFLAGS=-mod=mod GOPROXY=off GOSUMDB=off GOTOOLCHAIN=local"

# id -> (claimed?, design section, level text, level note, technique, not-applicable reason)
CLAIMS = json.load(open("/verif/tools/claims.json"))

def hook_commits():
    try:
        out = subprocess.run(["git", "-C", "/repo", "log", "--format=%H %s"], capture_output=True, text=True).stdout
    except Exception:
        return []
    return [l.split()[0] for l in out.splitlines() if l.split(" ", 1)[1].startswith("verif:")]

checks = []
na = []
for pid in sorted(CLAIMS):
    c = CLAIMS[pid]
    if not c.get("claimed"):
        na.append({"property_id": pid, "reason": c["reason"]})
        continue
    checks.append({
        "property_id": pid,
        "quick_cmd": f"bin/govc check --property {pid} --tier quick",
        "thorough_cmd": f"bin/govc check --property {pid} --tier thorough",
        "evidence_file": f"/verif/evidence/{pid}.json",
        "replay_cmd_template": "bin/govc replay {path}",
        "engine": "govc",
        "level_claimed": {"category": "proof", "text": c["text"], "design_ref": c["design_ref"]},
        "level_note": c["note"],
        "technique": c.get("technique", "contract-based deductive verification: weakest-precondition VCs generated from go/ssa of the real code against //@ contracts, discharged by z3/cvc5"),
    })

manifest = {
    "version": 1,
    "setup_cmd": f"cd /verif/engine && {ENV} go build -o ../bin/govc .",
    "hooks": {
        "guard": "verif",
        "enable": "-tags verif (comment-only verif_contracts*.go files; the engine loads /repo with this tag)",
        "baseline_off_cmd": "for m in $(cat /w/out/gomods.txt); do MF=$(cd /repo/$m && . /w/out/goenv.sh && gomodflag); (cd /repo/$m && go test $MF -json -vet=off -count=1 -timeout 25m ./...); done",
        "source_commits": hook_commits(),
        "add_only": True,
    },
    "engines": [{
        "name": "govc",
        "path": "/verif/engine",
        "serves_properties": [c["property_id"] for c in checks],
        "kind_free_text": "self-written deductive verifier: go/packages+go/ssa -> weakest-precondition verification conditions (bit-vector/array SMT-LIB2) for functions under //@ contracts, modular calls, loop invariants, lock typestate; solver race z3 5.1 / z3 4.8.12 / cvc5 1.0.3",
    }],
    "checks": checks,
    "not_applicable": na,
    "notes": "Contracts live in /repo/**/verif_contracts*.go (build tag verif, comment-only); a byte-identical mirror is in /verif/contracts and is used when the files are absent from /repo. See DESIGN.md.",
}
json.dump(manifest, open("/verif/MANIFEST.json", "w"), indent=1)
print("wrote MANIFEST.json:", len(checks), "checks,", len(na), "not applicable")
