#!/usr/bin/env python3
"""Must-fail corpus: every seeded change and every reverted fix must make the named check fail.

For each confirmed seed under /verif/seeded the patch is applied to /repo's working tree, the quick
check of its property is run (without rewriting evidence), and the tree is restored.  For each
`fixed` entry of known_findings.json the fix commit is reverse-applied and the same is done; the
violation must name the recorded obligation (compared up to the @-suffix, which numbers returns and
occurrences and may move).  Results go to /verif/selftest_report.json.

usage: selftest.py [seeds|fixes|all] [filter-substring]
"""
import json, os, subprocess, sys, glob, re, time

VERIF = "/verif"
REPO = "/repo"
EXPECTED_MISS = {
    "C06-B": "exactly one Return per call is a history property: no contract relates an answer's life cycle to the messages sent",
    "C07-B": "fillPayloadCapTable's per-payload count map is not under contract",
    "C10-B": "needs the resolution chain as a recursive spec function and channel closedness, neither modelled",
    "C19-B": "value correspondence of pogs insertField is not under contract",
    "C18-C": "rewrites the scanned loop: contract drift, reported UNDECIDED by design",
    "C18-A": "superseded: the code it patches was rewritten by the F20 fix",
    "C16-A": "changes the loop header the invariants are attached to: contract drift, reported UNDECIDED by design",
    "C09-D": "Close hangs because a channel is never closed after a failed Finish send: liveness across goroutines, channel state is not modelled",
    "C09-E": "shutdown waits on a task group its own caller still holds: WaitGroup counts are a history property, not modelled",
    "C11-C": "ReleaseClients releases only the first client of a row: 'every client is released' needs a model of Client.Release's effect; the loop annotations are dropped and the remaining lock discipline still holds",
    "C11-D": "Join no longer marks the promise as pending join while parked: promise state machine across goroutines, not under contract",
    "C16-D": "List.SetStruct fast path bypasses copyStruct: copyStruct's zero extension is a point assertion, not a postcondition a caller could be checked against (writePtr's frame is unknown)",
    "C19-C": "value correspondence of pogs insertField is not under contract (a first detection was an engine artifact - an oversized cover query counted as a failure - and was removed)",
    "C19-D": "field resolution order of pogs mapStruct is not under contract",
    "C17-B": "patch predates fix 2a502ba and no longer applies (was caught by Equal#assert:sizerule)",
}


def run(cmd, **kw):
    return subprocess.run(cmd, shell=True, capture_output=True, text=True, **kw)


def restore():
    run(f"git -C {REPO} checkout -- . && git -C {REPO} clean -fdq -e '*.txt' 2>/dev/null")
    run(f"cd {VERIF} && git checkout -- replay 2>/dev/null; git clean -fdq replay")


def check(prop):
    t = time.time()
    r = run(f"cd {VERIF} && bin/govc check --property {prop} --tier quick --no-evidence")
    lines = [l for l in r.stdout.splitlines() if l.startswith(("VIOLATION", "UNDECIDED", "KNOWN", "property"))]
    return r.returncode, lines, round(time.time() - t, 1)


def base(ob):
    return re.sub(r"@\d+$", "", ob)


def seeds(flt):
    out = []
    for d in sorted(glob.glob(f"{VERIF}/seeded/*")):
        sid = os.path.basename(d)
        if flt and flt not in sid:
            continue
        meta = json.load(open(d + "/meta.json"))
        prop = meta.get("property", sid.split("-")[0])
        rec = {"case": "seed " + sid, "property": prop}
        a = run(f"git -C {REPO} apply --check {d}/patch.diff")
        if a.returncode != 0:
            rec.update(result="patch does not apply", expected=EXPECTED_MISS.get(sid, ""))
            out.append(rec)
            print(rec, flush=True)
            continue
        run(f"git -C {REPO} apply {d}/patch.diff")
        try:
            rc, lines, secs = check(prop)
        finally:
            restore()
        viol = [l for l in lines if l.startswith("VIOLATION")]
        rec.update(exit=rc, seconds=secs, violations=[re.sub(r" replay=\S+", "", v) for v in viol][:4],
                   undecided=[l[:160] for l in lines if l.startswith("UNDECIDED")][:2])
        if rc == 1 and viol:
            rec["result"] = "detected"
        else:
            rec["result"] = "MISSED"
            rec["expected"] = EXPECTED_MISS.get(sid, "")
        out.append(rec)
        print(rec, flush=True)
    return out


def fixes(flt):
    out = []
    seen = set()
    for k in json.load(open(f"{VERIF}/known_findings.json")):
        if k.get("status") != "fixed":
            continue
        key = (k["commit"], k["property"])
        if key in seen or (flt and flt not in k["obligation"] and flt not in k["property"]):
            continue
        seen.add(key)
        rec = {"case": "revert " + k["commit"], "property": k["property"], "obligation": k["obligation"]}
        a = run(f"git -C {REPO} diff {k['commit']}^ {k['commit']} | git -C {REPO} apply -R --check")
        if a.returncode != 0:
            rec["result"] = "fix cannot be reverse-applied on the current tree (later commits touch the same lines)"
            out.append(rec)
            print(rec, flush=True)
            continue
        run(f"git -C {REPO} diff {k['commit']}^ {k['commit']} | git -C {REPO} apply -R")
        try:
            rc, lines, secs = check(k["property"])
        finally:
            restore()
        viol = [l for l in lines if l.startswith("VIOLATION")]
        named = [v for v in viol if base(k["obligation"]).split("@")[0] in v]
        if not viol and k["commit"].startswith("b8b638f"):
            rec["expected"] = "reverting this fix restores the old loop of canonicalStructSize: contract drift, UNDECIDED by design (the pre-fix code was refuted by the contract written for it: inv-pres:loop0.1)"
        rec.update(exit=rc, seconds=secs, violations=[re.sub(r" replay=\S+", "", v) for v in viol][:4])
        rec["result"] = "detected by the recorded obligation" if named else ("detected by another obligation" if viol else "MISSED")
        out.append(rec)
        print(rec, flush=True)
    return out


if __name__ == "__main__":
    what = sys.argv[1] if len(sys.argv) > 1 else "all"
    flt = sys.argv[2] if len(sys.argv) > 2 else ""
    if run(f"git -C {REPO} status --porcelain").stdout.strip():
        print("refusing to run: /repo working tree is not clean")
        sys.exit(2)
    res = []
    if what in ("seeds", "all"):
        res += seeds(flt)
    if what in ("fixes", "all"):
        res += fixes(flt)
    json.dump(res, open(f"{VERIF}/selftest_report.json", "w"), indent=1)
    bad = [r for r in res if r["result"] == "MISSED" and not r.get("expected")]
    print(f"{len(res)} cases, {len(bad)} unexpected misses")
    sys.exit(1 if bad else 0)
