#!/bin/sh
# Copies contract files edited in /repo back into the mirror, then commits them in /repo (sync).
cd /repo
find . -name 'verif_contracts*.go' | while read f; do mkdir -p "/verif/contracts/$(dirname $f)"; cp "$f" "/verif/contracts/$f"; done
/verif/tools/sync_contracts.sh
