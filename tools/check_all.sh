#!/bin/sh
# Runs the quick check of every claimed property (in MANIFEST order) and prints one line each.
cd /verif
tier=${1:-quick}
rc=0
for p in $(python3 -c "import json; print(' '.join(c['property_id'] for c in json.load(open('MANIFEST.json'))['checks']))"); do
  out=$(bin/govc check --property $p --tier $tier 2>&1); e=$?
  echo "$out" | grep -E "^VIOLATION|^UNDECIDED|^KNOWN-FINDING|^property" | cut -c1-220
  [ $e -ne 0 ] && rc=1 && echo "  exit($p)=$e"
done
exit $rc
